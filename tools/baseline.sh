#!/bin/sh
# Runs the repository's pinned suite with the verification guard OFF and compares the set of
# passing tests with /root/.vp/BASELINE.json (stable_pass).  Exit 0 iff all 193 still pass.
OUT=$(mktemp /tmp/vf-base-XXXXXX.xml)
cd /repo && env -u BETTERPROTO_VERIF /venv/bin/python -m pytest -ra -q -p no:cacheprovider --timeout=900 \
  --continue-on-collection-errors --junitxml="$OUT" >/dev/null 2>&1
/venv/bin/python - "$OUT" <<'PY'
import json, sys, xml.etree.ElementTree as ET
base = set(json.load(open('/root/.vp/BASELINE.json'))['stable_pass'])
passed = set()
for tc in ET.parse(sys.argv[1]).getroot().iter('testcase'):
    if not any(c.tag in ('failure', 'error', 'skipped') for c in tc):
        passed.add(f"{tc.get('classname')}::{tc.get('name')}")
missing = sorted(base - passed)
print(f"baseline: {len(base & passed)}/{len(base)} stable tests pass; newly passing: {len(passed - base)}")
for m in missing[:20]:
    print("  MISSING", m)
sys.exit(1 if missing else 0)
PY
rc=$?
rm -f "$OUT"
exit $rc
