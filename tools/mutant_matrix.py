#!/venv/bin/python
"""Runs every seeded change against checks in a scratch worktree (VERIF_REPO), records which checks catch it.
usage: [MM_ONLY_OWN=1] tools/mutant_matrix.py [tier] [name-filter ...]   (MM_ONLY_OWN: only the check of the broken property; results of related checks are kept)"""
import json, os, subprocess, sys, shutil
HERE = os.path.dirname(os.path.dirname(os.path.abspath(__file__)))
tier = sys.argv[1] if len(sys.argv) > 1 else "quick"
flts = sys.argv[2:] or [""]
RELATED = {"C01": ["C02", "C09"], "C02": ["C01"], "C06": ["C01"], "C07": ["C01"], "C08": ["C10"], "C09": ["C10"], "C04": ["C05"], "C05": ["C04"],
           "C15": ["C01"], "C16": ["C01", "C02"], "C17": ["C02"], "C20": ["C01"], "C03": ["C18"], "C18": ["C03"], "C12": [], "C11": [], "C13": ["C03"],
           "C14": ["C07"], "C10": ["C08"], "C19": ["C04"]}
rows = []
for name in sorted(os.listdir(os.path.join(HERE, "seeded"))):
    d = os.path.join(HERE, "seeded", name)
    if not os.path.isdir(d) or not any(f in name for f in flts):
        continue
    meta = json.load(open(os.path.join(d, "meta.json")))
    if meta.get("superseded") or not meta.get("breaks_property"):
        continue
    prop = meta["breaks_property"]
    wt = f"/tmp/vf-mm-{name}"
    subprocess.run(["git", "-C", "/repo", "worktree", "remove", "--force", wt], capture_output=True)
    subprocess.run(["git", "-C", "/repo", "worktree", "add", "--detach", wt, "HEAD"], capture_output=True, check=True)
    try:
        r = subprocess.run(["git", "-C", wt, "apply", os.path.join(d, "patch.diff")], capture_output=True, text=True)
        if r.returncode != 0:
            r = subprocess.run(["git", "-C", wt, "apply", "--3way", os.path.join(d, "patch.diff")], capture_output=True, text=True)
        if r.returncode != 0:
            rows.append((name, prop, "PATCH-DOES-NOT-APPLY", {}))
            continue
        caught = {}
        for c in [prop] + ([] if os.environ.get("MM_ONLY_OWN") else RELATED.get(prop, [])):
            env = dict(os.environ, VERIF_REPO=wt, VERIF_WORK=f"/tmp/vf-mm-work-{name}",
                       VERIF_EVIDENCE_DIR=f"/tmp/vf-mm-work-{name}/evidence", VERIF_REPLAY_DIR=f"/tmp/vf-mm-work-{name}/replays")
            p = subprocess.run([os.path.join(HERE, "check"), c, tier], capture_output=True, text=True, env=env, cwd=HERE)
            viol = [l for l in p.stdout.splitlines() if l.startswith("VIOLATION")]
            first = next((l.strip() for l in p.stdout.splitlines() if l.startswith("  ") and "[" in l and not l.startswith("  observed") and not l.startswith("  slowest")), "")
            caught[c] = {"rc": p.returncode, "violations": len(viol), "first": first[:240]}
            shutil.rmtree(f"/tmp/vf-mm-work-{name}", ignore_errors=True)
        prev = meta.get("caught_by", {}).get(tier, {}) if os.environ.get("MM_ONLY_OWN") else {}
        meta["caught_by"] = {tier: dict(prev, **caught)}
        meta["caught_at_commit"] = subprocess.check_output(["git", "-C", HERE, "rev-parse", "--short", "HEAD"]).decode().strip()
        json.dump(meta, open(os.path.join(d, "meta.json"), "w"), indent=1)
        rows.append((name, prop, "ok", caught))
    finally:
        subprocess.run(["git", "-C", "/repo", "worktree", "remove", "--force", wt], capture_output=True)
for name, prop, st, caught in rows:
    print(name, prop, st if st != "ok" else "; ".join(f"{c}: rc={v['rc']} ({v['violations']} sig)" for c, v in caught.items()))
# the table is always rebuilt from every meta.json (so partial re-runs do not lose rows)
with open(os.path.join(HERE, "seeded", f"RESULTS-{tier}.md"), "w") as fh:
    fh.write(f"# Seeded changes vs checks ({tier} tier)\n\nEach change was produced by a sub-agent that saw only the property text and a scratch worktree, "
             "confirmed (applies, 193/193 pinned tests pass, demo fails with / passes without), and run against the check of its own property "
             "and related checks in a scratch worktree (VERIF_REPO).  rc 1 = VIOLATION reported (caught), rc 0 = not reported, rc 2 = inconclusive.\n\n"
             "| change | breaks | own check | related checks | first signature reported |\n|---|---|---|---|---|\n")
    for name in sorted(os.listdir(os.path.join(HERE, "seeded"))):
        mp = os.path.join(HERE, "seeded", name, "meta.json")
        if not os.path.exists(mp):
            continue
        meta = json.load(open(mp))
        cb = meta.get("caught_by", {}).get(tier)
        if meta.get("superseded"):
            fh.write(f"| {name} | {meta['breaks_property']} | superseded | | {meta['superseded'][:160]} |\n")
            continue
        if not cb:
            fh.write(f"| {name} | {meta['breaks_property']} | not run | | |\n")
            continue
        prop = meta["breaks_property"]
        own = cb.get(prop, {})
        rel = "; ".join(f"{c} rc={v['rc']}" for c, v in cb.items() if c != prop)
        fh.write(f"| {name} | {prop} | rc={own.get('rc')} ({own.get('violations')} signatures) | {rel} | `{own.get('first', '')[:150].replace('|', '/')}` |\n")
