#!/bin/sh
# usage: tools/sweep.sh <tier> "<seeds>" [checks...]   -- runs the checks for each seed, prints one line per run
TIER="$1"; SEEDS="$2"; shift 2
CHECKS="${*:-C01 C02 C03 C04 C05 C06 C07 C08 C09 C10 C11 C12 C13 C14 C15 C16 C17 C18 C19 C20}"
cd "$(dirname "$0")/.." || exit 2
[ -d .deps/icontract ] || ./setup.sh >/dev/null 2>&1
for s in $SEEDS; do
  for c in $CHECKS; do
    out=$(VERIF_SEED=$s ./check $c $TIER 2>&1); rc=$?
    head1=$(printf '%s\n' "$out" | grep -a "^\[" | head -1)
    echo "seed=$s $c rc=$rc $head1"
    if [ $rc -ne 0 ]; then printf '%s\n' "$out" | grep -aE "^  [A-Za-z0-9_-]+ \[|INCONCLUSIVE" | cut -c1-400 | head -6; fi
  done
done
