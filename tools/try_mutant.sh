#!/bin/sh
# usage: try_mutant.sh <patch.diff> <tier> <check ids...>
# applies the patch to /repo, runs the checks, ALWAYS restores /repo. Prints one line per check.
PATCH="$1"; TIER="$2"; shift 2
cd /repo || exit 2
if [ -n "$(git status --porcelain)" ]; then echo "repo not clean"; exit 2; fi
if ! git apply "$PATCH" 2>/dev/null && ! git apply --3way "$PATCH"; then echo "PATCH DOES NOT APPLY: $PATCH"; git reset -q --hard HEAD; exit 3; fi
for c in "$@"; do
  out=$(cd /verif && ./check "$c" "$TIER" 2>&1)
  rc=$?
  nviol=$(printf '%s\n' "$out" | grep -c '^VIOLATION')
  first=$(printf '%s\n' "$out" | grep -B1 '^VIOLATION' | head -1 | cut -c1-220)
  echo "$c rc=$rc violations=$nviol :: $first"
  if [ $rc -eq 2 ]; then printf '%s\n' "$out" | grep INCONCLUSIVE | head -2 | cut -c1-300; fi
done
git reset -q --hard HEAD
git status --porcelain | head -3
