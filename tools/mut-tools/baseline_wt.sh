#!/bin/sh
# usage: baseline_wt.sh <worktree>   -- runs the pinned suite of that worktree (its own src first on the path), exit 0 iff all 193 stable tests pass
WT="$1"
OUT=$(mktemp /tmp/vf-basewt-XXXXXX.xml)
cd "$WT" && env -u BETTERPROTO_VERIF PYTHONPATH="$WT/src" /venv/bin/python -m pytest -ra -q -p no:cacheprovider --timeout=900 \
  --continue-on-collection-errors --junitxml="$OUT" >/dev/null 2>&1
/venv/bin/python - "$OUT" "$WT" <<'PY'
import json, sys, xml.etree.ElementTree as ET
base = set(json.load(open('/root/.vp/BASELINE.json'))['stable_pass'])
passed = set()
for tc in ET.parse(sys.argv[1]).getroot().iter('testcase'):
    if not any(c.tag in ('failure', 'error', 'skipped') for c in tc):
        passed.add(f"{tc.get('classname')}::{tc.get('name')}")
missing = sorted(base - passed)
print(f"baseline: {len(base & passed)}/{len(base)} stable tests pass; newly passing: {len(passed - base)}")
for m in missing[:20]:
    print("  MISSING", m)
sys.exit(1 if missing else 0)
PY
rc=$?
rm -f "$OUT"
exit $rc
