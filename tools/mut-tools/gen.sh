#!/bin/sh
# usage: TREE=<worktree> gen.sh <out_dir> [-I dir ...] [--python_betterproto_opt=...] files.proto...
# runs real protoc with the plugin of $TREE; output lands in <out_dir>
OUT="$1"; shift
mkdir -p "$OUT"
PATH=/tmp/mut-tools/bin:$PATH exec /venv/bin/python -m grpc_tools.protoc --python_betterproto_out="$OUT" "$@"
