#!/venv/bin/python
"""Regenerates MANIFEST.json from the check modules present in vf/checks."""
import importlib, json, os, sys
HERE = os.path.dirname(os.path.dirname(os.path.abspath(__file__)))
sys.path.insert(0, HERE)
props = [json.loads(l) for l in open(os.path.join(HERE, "properties.jsonl"))]
NA = {}  # property -> reason (none planned)
checks, na = [], []
for p in props:
    pid = p["id"]
    path = os.path.join(HERE, "vf", "checks", pid.lower() + ".py")
    if not os.path.exists(path) or pid in NA:
        na.append({"property_id": pid, "reason": NA.get(pid, "check not built yet (build in progress)")})
        continue
    src = open(path).read()
    ns = {}
    # read constants without importing the SUT
    import ast
    tree = ast.parse(src)
    for node in tree.body:
        if isinstance(node, ast.Assign) and len(node.targets) == 1 and isinstance(node.targets[0], ast.Name):
            if node.targets[0].id in ("LEVEL", "LEVEL_TEXT", "LEVEL_NOTE", "TECHNIQUE", "DESIGN_REF"):
                try:
                    ns[node.targets[0].id] = ast.literal_eval(node.value)
                except Exception:
                    pass
    checks.append({
        "property_id": pid,
        "quick_cmd": f"./check {pid} quick",
        "thorough_cmd": f"./check {pid} thorough",
        "evidence_file": f"/verif/evidence/{pid}.json",
        "replay_cmd_template": f"./check {pid} quick --replay {{path}}",
        "engine": "vf",
        "level_claimed": {
            "category": ns.get("LEVEL", "exploration"),
            "text": ns.get("LEVEL_TEXT", "runtime monitoring: held on the executions explored (seeded generated workloads under deterministic oracles); not a proof"),
            "design_ref": ns.get("DESIGN_REF", f"DESIGN.md section 4 ({pid})"),
        },
        "level_note": ns.get("LEVEL_NOTE", "trusted base: CPython 3.12, google.protobuf 7.x (reference), grpc_tools protoc, the harness' spec-level codec; ruff replaced by an identity stand-in"),
        "technique": ns.get("TECHNIQUE", "runtime monitoring: differential oracle + contracts over generated workloads"),
    })
m = {
    "version": 1,
    "setup_cmd": "./setup.sh",
    "hooks": {
        "guard": "BETTERPROTO_VERIF",
        "enable": "no source hooks: every monitor is woven from the harness (icontract contracts / wrappers on the imported module, plugin wrapped by vf.plugin_entry); BETTERPROTO_VERIF=1 is exported by ./check for documentation only",
        "baseline_off_cmd": "/verif/tools/baseline.sh",
        "source_commits": [],
        "add_only": True,
    },
    "engines": [{"name": "vf", "path": "/verif/vf", "serves_properties": [c["property_id"] for c in checks],
                 "kind_free_text": "runtime monitoring harness: seeded workload generators, contract monitors (icontract), differential oracles (google.protobuf, spec-level wire codec), history checkers, schedule director"}],
    "checks": checks,
    "not_applicable": na,
    "notes": "See DESIGN.md. ./check <ID> <quick|thorough> [--replay p] [--seed n]; VERIF_SEED / VERIF_TIER honoured. Exit 0 held, 1 violation, 2 inconclusive.",
}
json.dump(m, open(os.path.join(HERE, "MANIFEST.json"), "w"), indent=1)
print("checks:", [c["property_id"] for c in checks], "na:", [n["property_id"] for n in na])
