#!/bin/sh
# usage: tools/with_mutant.sh <seeded name> <command...>   -- runs the command with VERIF_REPO pointing at a scratch worktree that has the change applied
NAME="$1"; shift
WT=/tmp/vf-wm-$NAME-$$
git -C /repo worktree add --detach "$WT" HEAD >/dev/null 2>&1 || exit 2
if ! git -C "$WT" apply "/verif/seeded/$NAME/patch.diff" 2>/dev/null && ! git -C "$WT" apply --3way "/verif/seeded/$NAME/patch.diff" 2>/dev/null; then
  echo "PATCH DOES NOT APPLY"; git -C /repo worktree remove --force "$WT"; exit 3; fi
VERIF_REPO="$WT" VERIF_WORK="/tmp/vf-wm-work-$NAME-$$" VERIF_EVIDENCE_DIR="/tmp/vf-wm-work-$NAME-$$/evidence" VERIF_REPLAY_DIR="/tmp/vf-wm-work-$NAME-$$/replays" \
  PYTHONHASHSEED=0 PYTHONPATH="$WT/src:/verif" PATH="/verif/tools/bin:$PATH" "$@"
rc=$?
rm -rf "/tmp/vf-wm-work-$NAME-$$"
git -C /repo worktree remove --force "$WT" >/dev/null 2>&1
exit $rc
