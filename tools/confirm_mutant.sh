#!/bin/sh
# usage: confirm_mutant.sh <src dir with patch.diff demo.py notes.md> <name e.g. C09-A> <property>
# Confirms in a scratch worktree: patch applies, pinned tests pass with it, demo fails with it and passes without.
SRC="$1"; NAME="$2"; PROP="$3"
WT=/tmp/vf-confirm-$NAME
git -C /repo worktree remove --force "$WT" >/dev/null 2>&1
git -C /repo worktree add --detach "$WT" HEAD >/dev/null 2>&1 || { echo "cannot create worktree"; exit 2; }
cd "$WT"
TREE="$WT" PYTHONPATH="$WT/src" PATH=/tmp/mut-tools/bin:$PATH timeout 300 /venv/bin/python "$SRC/demo.py" >/tmp/vf-confirm-$NAME.clean.log 2>&1; clean_rc=$?
if git apply "$SRC/patch.diff" 2>/dev/null || git apply --3way "$SRC/patch.diff" 2>/dev/null; then applies=yes; else applies=no; fi
/tmp/mut-tools/baseline_wt.sh "$WT" >/tmp/vf-confirm-$NAME.base.log 2>&1; base_rc=$?
TREE="$WT" PYTHONPATH="$WT/src" PATH=/tmp/mut-tools/bin:$PATH timeout 300 /venv/bin/python "$SRC/demo.py" >/tmp/vf-confirm-$NAME.mut.log 2>&1; mut_rc=$?
echo "$NAME applies=$applies baseline_rc=$base_rc demo_clean_rc=$clean_rc demo_mutant_rc=$mut_rc"
if [ "$applies" = yes ] && [ $base_rc -eq 0 ] && [ $clean_rc -eq 0 ] && [ $mut_rc -ne 0 ]; then
  D=/verif/seeded/$NAME; mkdir -p "$D"
  git -C "$WT" diff > "$D/patch.diff"
  cp "$SRC/demo.py" "$D/demo.py"; cp "$SRC/notes.md" "$D/notes.md" 2>/dev/null
  /venv/bin/python - "$D" "$NAME" "$PROP" "$(git -C /repo rev-parse --short HEAD)" <<'PY'
import json, sys, os
d, name, prop, head = sys.argv[1:5]
meta = {"name": name, "breaks_property": prop, "base_commit": head,
        "needs_to_manifest": open(os.path.join(d, "notes.md")).read()[:1500] if os.path.exists(os.path.join(d, "notes.md")) else "",
        "confirmed": {"patch_applies_on_base": True, "pinned_suite_with_mutant": "193/193 pass (tools: /tmp/mut-tools/baseline_wt.sh in a scratch worktree)",
                      "demo_on_clean_tree_exit": 0, "demo_with_mutant_exit": "non-zero"},
        "caught_by": {}}
p = os.path.join(d, "meta.json")
if os.path.exists(p):
    old = json.load(open(p)); meta["caught_by"] = old.get("caught_by", {})
json.dump(meta, open(p, "w"), indent=1)
PY
  echo "  kept as $D"
else
  echo "  NOT KEPT (see /tmp/vf-confirm-$NAME.*.log)"
fi
cd /; git -C /repo worktree remove --force "$WT" >/dev/null 2>&1
