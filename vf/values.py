"""Neutral value trees: generation, instantiation on both sides, normalisation, diff.

A tree is {field_number: value}.  Presence is explicit: a key is in the tree iff the field
is "set" in the proto3 sense that both sides can express (see DESIGN 3.5):

  singular implicit scalar/enum   present iff value != default
  optional / oneof / wrapper      present iff set (default values included)
  plain sub-message               present iff serialized_on_wire / HasField
  non-optional Timestamp/Duration present iff != (0, 0)      (betterproto has no presence here)
  repeated / map                  present iff non-empty

Leaf encodings: ints, bools, str, bytes, floats (NaN -> ("nan",), -0.0 -> 0.0, float kind
rounded through float32), enums as ints, Timestamp ("ts", s, n), Duration ("du", s, n),
messages as nested trees, repeated as lists, maps as dicts.
"""
from __future__ import annotations

import dataclasses
import math
import struct
from datetime import datetime, timedelta, timezone
from typing import Any, Dict, Iterator, List, Optional, Tuple

from .build import Build, FieldInfo, MsgInfo

EPOCH = datetime(1970, 1, 1, tzinfo=timezone.utc)
TS_MIN_S = -62135596800
TS_MAX_S = 253402300799
DU_MAX_S = 315576000000
NAN = ("nan",)


def f32(x: float) -> float:
    return struct.unpack("<f", struct.pack("<f", x))[0]


# ---------------------------------------------------------------------------
# boundary tables

INT_BOUNDS = {
    "int32": [0, 1, -1, 127, 128, 16383, 16384, 2**31 - 1, -(2**31)],
    "sint32": [0, 1, -1, 63, 64, -64, -65, 2**31 - 1, -(2**31)],
    "sfixed32": [0, 1, -1, 2**31 - 1, -(2**31)],
    "int64": [0, 1, -1, 2**31, -(2**31) - 1, 2**53 + 1, -(2**53) - 1, 2**63 - 1, -(2**63)],
    "sint64": [0, 1, -1, 2**31, -(2**31) - 1, 2**53 + 1, 2**63 - 1, -(2**63)],
    "sfixed64": [0, 1, -1, 2**53 + 1, 2**63 - 1, -(2**63)],
    "uint32": [0, 1, 127, 128, 2**31, 2**32 - 1],
    "fixed32": [0, 1, 2**31, 2**32 - 1],
    "uint64": [0, 1, 2**32, 2**53 + 1, 2**63, 2**64 - 1],
    "fixed64": [0, 1, 2**53 + 1, 2**63, 2**64 - 1],
}
INT_RANGE = {
    "int32": (-(2**31), 2**31 - 1), "sint32": (-(2**31), 2**31 - 1), "sfixed32": (-(2**31), 2**31 - 1),
    "int64": (-(2**63), 2**63 - 1), "sint64": (-(2**63), 2**63 - 1), "sfixed64": (-(2**63), 2**63 - 1),
    "uint32": (0, 2**32 - 1), "fixed32": (0, 2**32 - 1), "uint64": (0, 2**64 - 1), "fixed64": (0, 2**64 - 1),
}
FLOAT_BOUNDS = [0.0, -0.0, 1.5, -2.25, float("inf"), float("-inf"), float("nan"),
                3.4028234663852886e38, 1.401298464324817e-45, -1.1754943508222875e-38]
DOUBLE_BOUNDS = [0.0, -0.0, 1.5, 0.1, -1e308, 5e-324, 1.7976931348623157e308, float("inf"),
                 float("-inf"), float("nan"), 2.0**53 + 2]
STRING_BOUNDS = ["", "a", "héllo", "\U0001F600x", "\x00", 'q"uo\\te\n', "x" * 130, "中文",
                 "\ufeffbom", "\ufeff", "a\ufeff", "\ud7ff\ue000\uffff", "\U0010ffff", "\u2028\u2029", "\x7f\x80\x9f", " lead and trail ",
                 "y" * 126, "y" * 127, "z" * 128, "é" * 64]  # encoded lengths around the 1-byte / 2-byte length-prefix boundary
BYTES_BOUNDS = [b"", b"\x00", b"\x80\xff", b"abc", bytes(range(256))[100:240], b"\xff" * 3, b"\x01" * 127, b"\x02" * 128, b"\x03" * 126]
TS_BOUNDS = [(0, 0), (1, 0), (-1, 0), (0, 1000), (-1, 999999000), (0, 999999000), (TS_MIN_S, 0),
             (TS_MAX_S, 999999000), (1700000000, 123456000), (-1700000000, 1000), (951782400, 0),
             (1700000001, 5000000), (7, 50000000), (-7, 500000000), (1, 1000000), (2, 99000000), (3, 100000)]
DU_BOUNDS = [(0, 0), (1, 0), (-1, 0), (0, 1000), (0, -1000), (-1, -500000000), (0, 999999000),
             (0, -999999000), (DU_MAX_S, 999999000), (-DU_MAX_S, -999999000), (9007199255, 1000),
             (-9007199255, -1000), (3, 141592000), (-3, -141592000), (0, 500000000), (0, -1000000),
             (1, 5000000), (-1, -50000000), (0, 99000000), (5, 100000), (0, -5000000)]


def enum_bounds(build: Build, type_name: str) -> List[int]:
    ei = build.enums[type_name]
    declared = sorted(set(ei.numbers))
    und = []
    for c in (max(declared) + 1, min(declared) - 1, 2**31 - 1, -(2**31), 1000003, -7):
        if c not in declared and -(2**31) <= c <= 2**31 - 1 and c not in und:
            und.append(c)
    return declared + und


def scalar_bounds(kind: str) -> list:
    if kind in INT_BOUNDS:
        return INT_BOUNDS[kind]
    if kind == "bool":
        return [False, True]
    if kind == "float":
        return FLOAT_BOUNDS
    if kind == "double":
        return DOUBLE_BOUNDS
    if kind == "string":
        return STRING_BOUNDS
    if kind == "bytes":
        return BYTES_BOUNDS
    raise KeyError(kind)


def rand_scalar(rng, kind: str):
    if kind in INT_RANGE:
        lo, hi = INT_RANGE[kind]
        r = rng.random()
        if r < 0.3:
            return rng.randint(max(lo, -200), min(hi, 200))
        if r < 0.6:
            bits = rng.randint(1, 64 if "64" in kind else 32)
            v = rng.getrandbits(bits)
            if lo < 0 and rng.random() < 0.5:
                v = -v
            return max(lo, min(hi, v))
        return rng.randint(lo, hi)
    if kind == "bool":
        return rng.random() < 0.5
    if kind == "float":
        return f32(rng.choice([rng.uniform(-1e3, 1e3), rng.uniform(-1e30, 1e30), rng.uniform(-1e-30, 1e-30)]))
    if kind == "double":
        return rng.choice([rng.uniform(-1e3, 1e3), rng.uniform(-1e300, 1e300), rng.uniform(-1e-300, 1e-300),
                           float(rng.randint(-(2**60), 2**60))])
    if kind == "string":
        alphabet = "abcXYZ019 _-é中\U0001F600\n\"\\"
        return "".join(rng.choice(alphabet) for _ in range(rng.randint(1, 12)))
    if kind == "bytes":
        return bytes(rng.getrandbits(8) for _ in range(rng.randint(1, 12)))
    raise KeyError(kind)


def rand_ts(rng) -> Tuple[int, int]:
    r = rng.random()
    if r < 0.3:
        s = rng.randint(-10, 10)
    elif r < 0.6:
        s = rng.randint(-2 * 10**9, 2 * 10**9)
    else:
        s = rng.randint(TS_MIN_S, TS_MAX_S)
    n = rng.choice([0, 1000, 999999000, rng.randint(0, 999999) * 1000, rng.randint(1, 999) * 1000000, rng.randint(1, 99) * 1000000])
    return (s, n)


def rand_du(rng) -> Tuple[int, int]:
    r = rng.random()
    if r < 0.3:
        s = rng.randint(0, 10)
    elif r < 0.6:
        s = rng.randint(0, 2 * 10**9)
    else:
        s = rng.randint(0, DU_MAX_S)
    n = rng.choice([0, 1000, 999999000, rng.randint(0, 999999) * 1000, rng.randint(1, 999) * 1000000, rng.randint(1, 99) * 1000000])
    if rng.random() < 0.5:
        s, n = -s, -n
    return (s, n)


# ---------------------------------------------------------------------------
# classification of a leaf value (for mechanism signatures)

def value_class(kind: str, v, build: Optional[Build] = None, type_name: Optional[str] = None) -> str:
    if v == NAN:
        return "nan"
    if isinstance(v, tuple) and v and v[0] in ("ts", "du"):
        s, n = v[1], v[2]
        if (s, n) == (0, 0):
            return "zero"
        neg = s < 0 or n < 0
        frac = n != 0
        big = abs(s) * 10**6 > 2**53
        return ("neg" if neg else "pos") + ("-frac" if frac else "") + ("-big" if big else "")
    if kind == "enum":
        if build is not None and type_name is not None and type_name in build.enums:
            if v not in build.enums[type_name].numbers:
                return "undeclared-neg" if v < 0 else "undeclared"
        return "zero" if v == 0 else ("neg" if v < 0 else "declared")
    if isinstance(v, bool):
        return "true" if v else "false"
    if isinstance(v, int):
        if v == 0:
            return "zero"
        if abs(v) > 2**53:
            return "neg-big" if v < 0 else "big"
        return "neg" if v < 0 else "pos"
    if isinstance(v, float):
        if math.isinf(v):
            return "inf"
        if v == 0:
            return "negative-zero" if is_negzero(v) else "zero"
        return "finite"
    if isinstance(v, (str, bytes)):
        return "empty" if len(v) == 0 else "nonempty"
    if isinstance(v, dict):
        if not v:
            return "empty-msg"
        if _only_empties(v):
            return "msg-only-empties"  # nothing but (nested) present-but-empty messages: equal to the default up to presence
        if build is not None and type_name in build.msgs:
            mi = build.msgs[type_name]
            try:
                if all(mi.field(k).label in ("repeated", "map") or (mi.field(k).label == "singular" and mi.field(k).kind == "message"
                                                                     and mi.field(k).wkt is None) for k in v):
                    return "msg-only-nested"  # holds only containers / sub-messages (fillable purely in place)
            except KeyError:
                pass
        return "msg"
    return type(v).__name__


def default_leaf(fi: FieldInfo):
    """the tree leaf for 'this field set to its default value'"""
    if fi.wkt == "timestamp":
        return ("ts", 0, 0)
    if fi.wkt == "duration":
        return ("du", 0, 0)
    if fi.wkt and fi.wkt.startswith("wrapper:"):
        k = fi.wkt.split(":")[1]
        return norm_leaf(k, scalar_bounds(k)[0]) if k not in ("string", "bytes") else ("" if k == "string" else b"")
    if fi.kind == "message":
        return {}
    return default_of(fi)


def presence_only_trees(build: Build, sub: MsgInfo) -> List[dict]:
    """values of a message type that carry ONLY presence / selection information: every field that is set holds its
    default value (a default-valued selected oneof member, a present-but-empty sub-message, an optional at its
    default).  Such a message is falsy and compares equal to an unset one, yet encodes to a non-empty byte string."""
    out = []
    by_num = {f.number: f for f in sub.fields}
    t = {members[0]: default_leaf(by_num[members[0]]) for g, members in sub.oneofs.items()}
    if t:
        out.append(t)
        g, members = next(iter(sub.oneofs.items()))
        out.append({members[-1]: default_leaf(by_num[members[-1]])})
    t = {f.number: {} for f in sub.fields if f.label == "singular" and f.kind == "message" and not f.wkt}
    if t:
        out.append(t)
    t = {f.number: default_leaf(f) for f in sub.fields if f.label == "optional"}
    if t:
        out.append(t)
    return out


def grow_in_place(build: Build, m, mi: MsgInfo, depth: int = 0) -> bool:
    """lets a message grow WITHOUT assigning any attribute of the message itself: list.append, dict item assignment,
    and the same inside present plain sub-messages.  True if something grew."""
    import betterproto

    names = attr_names(type(m))
    grew = False
    for fi in mi.fields:
        if fi.number not in names:
            continue
        try:
            v = getattr(m, names[fi.number])
        except AttributeError:
            continue
        if fi.label == "repeated" and v:
            v.append(v[0])
            grew = True
        elif fi.label == "map" and v and fi.map_key.kind == "string":
            k0 = next(iter(v))
            v[k0 + "+grown"] = v[k0]
            grew = True
        elif fi.label == "singular" and fi.kind == "message" and fi.wkt is None and depth < 2 and betterproto.serialized_on_wire(v):
            grew = grow_in_place(build, v, build.msgs[fi.type_name], depth + 1) or grew
    return grew


def _only_empties(v) -> bool:
    if not isinstance(v, dict):
        return False
    return all(isinstance(x, dict) and (not x or _only_empties(x)) for x in v.values())


# ---------------------------------------------------------------------------
# generation

class Gen:
    def __init__(self, build: Build, rng, max_depth: int = 3, ts_us: bool = True):
        self.b = build
        self.rng = rng
        self.max_depth = max_depth
        self.budget = 60

    def leaf(self, fi: FieldInfo, depth: int, mode: str = "mixed"):
        """A value for one occurrence of field kind fi (ignoring its label)."""
        rng = self.rng
        self.budget -= 1
        if fi.wkt == "timestamp":
            t = rng.choice(TS_BOUNDS) if (mode == "boundary" or rng.random() < 0.5) else rand_ts(rng)
            return ("ts",) + tuple(t)
        if fi.wkt == "duration":
            t = rng.choice(DU_BOUNDS) if (mode == "boundary" or rng.random() < 0.5) else rand_du(rng)
            return ("du",) + tuple(t)
        if fi.wkt and fi.wkt.startswith("wrapper:"):
            k = fi.wkt.split(":")[1]
            return self._scalar(k, mode)
        if fi.kind == "enum":
            return rng.choice(enum_bounds(self.b, fi.type_name))
        if fi.kind == "message":
            if depth >= self.max_depth or self.budget <= 0:
                return {}
            return self.tree(self.b.msgs[fi.type_name], depth + 1, "random" if mode != "maximal" else "maximal")
        return self._scalar(fi.kind, mode)

    def _scalar(self, kind: str, mode: str):
        rng = self.rng
        if mode == "boundary" or rng.random() < 0.6:
            v = rng.choice(scalar_bounds(kind))
        else:
            v = rand_scalar(rng, kind)
        return norm_leaf(kind, v)

    def tree(self, mi: MsgInfo, depth: int = 0, shape: str = "random") -> dict:
        rng = self.rng
        t: Dict[int, Any] = {}
        chosen = {}
        if depth == 0:
            self.budget = 60
        if depth > 0 and shape == "maximal":
            shape = "random" if depth >= 2 else shape
        for g, members in mi.oneofs.items():
            if shape == "maximal" or rng.random() < 0.7:
                chosen[g] = rng.choice(members)
        for fi in mi.fields:
            if fi.label == "oneof":
                if chosen.get(fi.group) != fi.number:
                    continue
                if fi.kind == "message" and fi.wkt is None and depth >= self.max_depth:
                    t[fi.number] = {}
                else:
                    t[fi.number] = self.leaf(fi, depth, "mixed")
                continue
            if (shape != "maximal" and rng.random() < 0.35) or self.budget <= 0:
                continue
            if fi.label == "repeated":
                n = rng.choice([1, 1, 2, 3, 5]) if (fi.kind != "message" or fi.wkt) else (rng.choice([1, 1, 2, 3]) if depth < self.max_depth else 1)
                t[fi.number] = [self.leaf(fi, depth, "mixed") for _ in range(n)]
            elif fi.label == "map":
                n = rng.choice([1, 2, 3])
                d = {}
                for _ in range(n):
                    k = self._scalar(fi.map_key.kind, "mixed")
                    d[k] = self.leaf(fi.map_value, depth, "mixed")
                t[fi.number] = d
            elif fi.label == "optional":
                t[fi.number] = self.leaf(fi, depth, "mixed")
            else:  # singular
                if fi.kind == "message" and fi.wkt is None and depth >= self.max_depth:
                    if rng.random() < 0.5:
                        t[fi.number] = {}
                    continue
                t[fi.number] = self.leaf(fi, depth, "mixed")
        return canon(self.b, mi, t)

    # sizes around the points where length prefixes, buffers and typical "optimisation" thresholds change
    BIG_SIZES = [127, 128, 1023, 1024, 4095, 4096, 4097, 8191, 8192, 12000, 16383, 16384, 20000, 32767, 32768, 65535, 65536, 65537, 70000]
    BIG_COUNTS = [31, 32, 33, 64, 65, 127, 128, 129, 256, 257, 300, 1366, 2100]

    def big(self, mi: MsgInfo, budget: int = 40) -> Iterator[Tuple[str, dict]]:
        """QUANTITY and SIZE: one field of the message holds a payload / a number of elements / a number of entries well
        beyond what the other shapes produce (strings and bytes of 127..70000 bytes, 31..2100 elements or entries, a nested
        message that is large because of what it contains).  One (field, size) cell per case, sizes drawn per field."""
        rng = self.rng
        cells = []
        for fi in mi.fields:
            kind = fi.wkt.split(":")[1] if (fi.wkt or "").startswith("wrapper:") else fi.kind
            if fi.label in ("singular", "optional", "oneof") and kind in ("string", "bytes") and (fi.wkt is None or fi.wkt.startswith("wrapper:")):
                for n in rng.sample(self.BIG_SIZES, 4):
                    v = ("s" * n) if kind == "string" else bytes((i * 31 + n) % 256 for i in range(n))
                    cells.append((f"big-{kind}:{n}", {fi.number: v}))
            elif fi.label == "repeated":
                for n in rng.sample(self.BIG_COUNTS, 3):
                    if fi.kind == "message" and fi.wkt is None:
                        if n > 300:
                            n = 300
                        vals = [self.leaf(fi, self.max_depth - 1, "mixed") if i % 3 else {} for i in range(n)]
                    elif kind in ("string", "bytes"):
                        vals = [norm_leaf(kind, ("e%d" % i) if kind == "string" else bytes([i % 256, (i >> 8) % 256])) for i in range(n)]
                    else:
                        pool = self._bounds_for(fi)
                        vals = [pool[(i * 7 + n) % len(pool)] for i in range(n)]
                    cells.append((f"big-repeated-{fi.kind}:{n}", {fi.number: vals}))
            elif fi.label == "map":
                for n in rng.sample(self.BIG_COUNTS[:11], 2):
                    kk = fi.map_key.kind
                    if kk == "bool":
                        continue
                    d = {}
                    for i in range(n):
                        k = norm_leaf(kk, ("k%04d" % ((i * 7919) % 10007)) if kk == "string" else (i * 7919) % 10007 + (1 if kk.startswith("u") or kk.startswith("fixed") else -50))
                        d[k] = self.leaf(fi.map_value, self.max_depth - 1, "mixed") if i % 4 else self._bounds_for(fi.map_value)[0]
                    cells.append((f"big-map-{fi.map_value.kind}:{n}", {fi.number: d}))
            elif fi.label in ("singular", "optional", "oneof") and fi.kind == "message" and fi.wkt is None:
                sub = self.b.msgs[fi.type_name]
                inner = [f for f in sub.fields if f.label in ("singular", "optional") and f.kind in ("string", "bytes") and f.wkt is None]
                if inner:
                    f2 = inner[0]
                    for n in rng.sample(self.BIG_SIZES[7:], 3):
                        v = ("n" * n) if f2.kind == "string" else bytes((i * 17) % 256 for i in range(n))
                        cells.append((f"big-nested-{f2.kind}:{n}", {fi.number: {f2.number: v}}))
        rng.shuffle(cells)
        for tag, tree in cells[:budget]:
            yield tag, canon(self.b, mi, tree)

    def matrix(self, mi: MsgInfo) -> Iterator[Tuple[FieldInfo, str, dict]]:
        """one field set, one boundary value -- every (field, boundary) cell alone"""
        for fi in mi.fields:
            for label_case, tree in self._matrix_field(mi, fi):
                yield fi, label_case, canon(self.b, mi, tree)

    def _bounds_for(self, fi: FieldInfo) -> list:
        if fi.wkt == "timestamp":
            return [("ts",) + t for t in TS_BOUNDS]
        if fi.wkt == "duration":
            return [("du",) + t for t in DU_BOUNDS]
        if fi.wkt and fi.wkt.startswith("wrapper:"):
            k = fi.wkt.split(":")[1]
            return [norm_leaf(k, v) for v in scalar_bounds(k)]
        if fi.kind == "enum":
            return enum_bounds(self.b, fi.type_name)
        if fi.kind == "message":
            sub = self.b.msgs[fi.type_name]
            out = [{}]
            g = Gen(self.b, self.rng, max_depth=2)
            out.append(g.tree(sub, 1, "random"))
            out.append(g.tree(sub, 1, "maximal"))
            out.extend(presence_only_trees(self.b, sub))
            return out
        return [norm_leaf(fi.kind, v) for v in scalar_bounds(fi.kind)]

    def _matrix_field(self, mi: MsgInfo, fi: FieldInfo):
        bounds = self._bounds_for(fi) if fi.label != "map" else None
        if fi.label in ("singular", "optional", "oneof"):
            for v in bounds:
                yield "single", {fi.number: v}
        elif fi.label == "repeated":
            for v in bounds:
                yield "rep1", {fi.number: [v]}
            yield "repN", {fi.number: list(bounds)}
        elif fi.label == "map":
            kb = [norm_leaf(fi.map_key.kind, v) for v in scalar_bounds(fi.map_key.kind)]
            vb = self._bounds_for(fi.map_value)
            for i, k in enumerate(kb):
                yield "mapkey", {fi.number: {k: vb[i % len(vb)]}}
            for i, v in enumerate(vb):
                yield "mapval", {fi.number: {kb[(i + 1) % len(kb)]: v}}


def norm_leaf(kind: str, v):
    if kind == "float" and isinstance(v, float):
        if math.isnan(v):
            return NAN
        return f32(v)  # the sign of a zero is kept: -0.0 is a value of its own (other bytes, not the default)
    if kind == "double" and isinstance(v, float):
        if math.isnan(v):
            return NAN
        return v
    return v


def is_negzero(v) -> bool:
    return isinstance(v, float) and v == 0 and math.copysign(1.0, v) < 0


def default_of(fi: FieldInfo):
    if fi.kind in INT_RANGE or fi.kind == "enum":
        return 0
    if fi.kind == "bool":
        return False
    if fi.kind in ("float", "double"):
        return 0.0
    if fi.kind == "string":
        return ""
    if fi.kind == "bytes":
        return b""
    return None


def canon(build: Build, mi: MsgInfo, tree: dict) -> dict:
    """Canonical form: drop what proto3 cannot distinguish from absence."""
    out = {}
    for fi in mi.fields:
        if fi.number not in tree:
            continue
        v = tree[fi.number]
        if fi.label == "singular":
            if fi.wkt in ("timestamp", "duration"):
                if (v[1], v[2]) == (0, 0):
                    continue
            elif fi.kind == "message":
                if fi.wkt is None:
                    v = canon(build, build.msgs[fi.type_name], v)
            else:
                if v == default_of(fi) and v != NAN and not is_negzero(v):
                    continue
        elif fi.label in ("optional", "oneof"):
            if fi.kind == "message" and fi.wkt is None:
                v = canon(build, build.msgs[fi.type_name], v)
        elif fi.label == "repeated":
            if not v:
                continue
            if fi.kind == "message" and fi.wkt is None:
                v = [canon(build, build.msgs[fi.type_name], x) for x in v]
        elif fi.label == "map":
            if not v:
                continue
            mv = fi.map_value
            if mv.kind == "message" and mv.wkt is None:
                v = {k: canon(build, build.msgs[mv.type_name], x) for k, x in v.items()}
        out[fi.number] = v
    return out


# ---------------------------------------------------------------------------
# betterproto side

def hints_of(cls) -> dict:
    """resolved type hints of a message class: the runtime's own lazy resolution when the class offers it, else the
    public typing API with the class's module as global namespace (so a renamed helper cannot raise an alarm)"""
    import sys
    import typing

    fn = getattr(cls, "_type_hints", None)
    if callable(fn):
        return fn()  # what the runtime itself resolves (the thing to observe)
    return typing.get_type_hints(cls, vars(sys.modules[cls.__module__]), {})


_ATTR_CACHE: Dict[type, Dict[int, str]] = {}


def attr_names(cls) -> Dict[int, str]:
    m = _ATTR_CACHE.get(cls)
    if m is None:
        m = {}
        for f in dataclasses.fields(cls):
            meta = f.metadata.get("betterproto")
            if meta is not None:
                m[meta.number] = f.name
        _ATTR_CACHE[cls] = m
    return m


_TZS = [timezone.utc, timezone(timedelta(hours=2)), timezone(timedelta(hours=-5, minutes=-30)), timezone.utc,
        timezone(timedelta(hours=14)), timezone(timedelta(hours=-12))]


def ts_to_dt(s: int, n: int) -> datetime:
    """aware datetime of the instant; the zone is a deterministic function of the value (the same instant in
    another zone must encode identically), falling back to UTC near the ends of the datetime range"""
    dt = EPOCH + timedelta(seconds=s, microseconds=n // 1000)
    tz = _TZS[(s + n // 1000) % len(_TZS)]
    if tz is not timezone.utc and TS_MIN_S + 86400 < s < TS_MAX_S - 86400:
        return dt.astimezone(tz)
    return dt


def du_to_td(s: int, n: int) -> timedelta:
    us = s * 10**6 + (n // 1000 if n >= 0 else -((-n) // 1000))
    return timedelta(microseconds=us)


def dt_to_ts(dt: datetime) -> Tuple[int, int]:
    d = dt - EPOCH
    us = (d.days * 86400 + d.seconds) * 10**6 + d.microseconds
    s, r = divmod(us, 10**6)
    return s, r * 1000


def td_to_du(td: timedelta) -> Tuple[int, int]:
    us = (td.days * 86400 + td.seconds) * 10**6 + td.microseconds
    if us < 0:
        s, r = divmod(-us, 10**6)
        return -s, -r * 1000
    s, r = divmod(us, 10**6)
    return s, r * 1000


class BP:
    """Instantiation of trees as betterproto messages and normalisation back."""

    def __init__(self, build: Build, enum_as: str = "member"):
        self.b = build
        self.enum_as = enum_as

    def py_leaf(self, fi: FieldInfo, v, route: str, contained: bool = False):
        """contained: the value is a list element / map value (present by being there)"""
        if fi.wkt == "timestamp":
            return ts_to_dt(v[1], v[2])
        if fi.wkt == "duration":
            return du_to_td(v[1], v[2])
        if fi.wkt and fi.wkt.startswith("wrapper:"):
            return self._py_scalar(fi.wkt.split(":")[1], v)
        if fi.kind == "enum":
            ecls = self.b.bp_enum(fi.type_name)
            if self.enum_as == "int":
                return v
            return ecls.try_value(v)
        if fi.kind == "message":
            if not v and (contained or fi.label in ("oneof", "optional", "repeated") or not self.b.msgs[fi.type_name].fields):
                # an empty message in a position where ASSIGNING it already means "set" (oneof member, optional, list
                # element, map value, or any field of a field-less type): alternate between a freshly constructed Sub()
                # and a received empty one
                self._fresh_toggle = not getattr(self, "_fresh_toggle", False)
                if self._fresh_toggle:
                    return self.b.bp_class(fi.type_name)()
            return self.make(self.b.msgs[fi.type_name], v, route, _nested=True)
        return self._py_scalar(fi.kind, v)

    @staticmethod
    def _py_scalar(kind, v):
        if v == NAN:
            return float("nan")
        return v

    def kwargs(self, mi: MsgInfo, tree: dict, route: str) -> Dict[str, Any]:
        cls = self.b.bp_class(mi.full_name)
        names = attr_names(cls)
        kw = {}
        for fi in mi.fields:
            if fi.number not in tree:
                continue
            v = tree[fi.number]
            if fi.label == "repeated":
                pv = [self.py_leaf(fi, x, route, True) for x in v]
            elif fi.label == "map":
                pv = {self._py_scalar(fi.map_key.kind, k): self.py_leaf(fi.map_value, x, route, True) for k, x in v.items()}
            else:
                pv = self.py_leaf(fi, v, route)
            kw[names[fi.number]] = pv
        return kw

    def make(self, mi: MsgInfo, tree: dict, route: str = "ctor", _nested: bool = False):
        """route: ctor | attr.  A present-but-empty plain sub-message is produced with
        Sub().parse(b"") (public API), since Sub() assigned to a field is by design absent."""
        cls = self.b.bp_class(mi.full_name)
        if route == "inplace":
            m = cls()
            self.fill_inplace(m, mi, tree)
            if _nested and not tree:
                m = cls().parse(b"")
            return m
        kw = self.kwargs(mi, tree, route)
        if route == "attr":
            m = cls()
            for k, v in kw.items():
                setattr(m, k, v)
        else:
            m = cls(**kw)
        if _nested and not tree:
            m = cls().parse(b"")
        return m

    def fill_inplace(self, m, mi: MsgInfo, tree: dict) -> None:
        """route 'inplace': containers and plain sub-messages are filled by mutating the lazily
        created default object (m.items.append, m.map[k] = v, m.sub.x = ...) - the parent itself
        is never assigned to for those fields.  Scalars / optional / oneof members are assigned."""
        names = attr_names(type(m))
        for fi in mi.fields:
            if fi.number not in tree:
                continue
            v = tree[fi.number]
            nm = names[fi.number]
            if fi.label == "repeated":
                lst = getattr(m, nm)
                for x in v:
                    lst.append(self.py_leaf(fi, x, "inplace", True))
            elif fi.label == "map":
                d = getattr(m, nm)
                for k, x in v.items():
                    d[self._py_scalar(fi.map_key.kind, k)] = self.py_leaf(fi.map_value, x, "inplace", True)
            elif fi.label == "singular" and fi.kind == "message" and fi.wkt is None and v:
                self.fill_inplace(getattr(m, nm), self.b.msgs[fi.type_name], v)
            else:
                setattr(m, nm, self.py_leaf(fi, v, "inplace"))

    # -- normalisation ----------------------------------------------------
    def norm_leaf(self, fi: FieldInfo, v, problems: list, path: str):
        if fi.wkt == "timestamp":
            if not isinstance(v, datetime):
                problems.append((path, f"type:{type(v).__name__}-for-timestamp"))
                return ("badtype", repr(v))
            if v.tzinfo is None:
                return ("naive", v.isoformat())
            return ("ts",) + dt_to_ts(v)
        if fi.wkt == "duration":
            if not isinstance(v, timedelta):
                problems.append((path, f"type:{type(v).__name__}-for-duration"))
                return ("badtype", repr(v))
            return ("du",) + td_to_du(v)
        if fi.wkt and fi.wkt.startswith("wrapper:"):
            return self._norm_scalar(fi.wkt.split(":")[1], v, problems, path)
        if fi.kind == "enum":
            if not isinstance(v, int) or isinstance(v, bool):
                problems.append((path, f"type:{type(v).__name__}-for-enum"))
                return ("badtype", repr(v))
            return int(v)
        if fi.kind == "message":
            import betterproto

            if not isinstance(v, betterproto.Message):
                problems.append((path, f"type:{type(v).__name__}-for-message"))
                return ("badtype", repr(v))
            return self.norm(self.b.msgs[fi.type_name], v, problems, path)
        return self._norm_scalar(fi.kind, v, problems, path)

    @staticmethod
    def _norm_scalar(kind, v, problems, path):
        if kind in INT_RANGE:
            if isinstance(v, bool) or not isinstance(v, int):
                problems.append((path, f"type:{type(v).__name__}-for-{kind}"))
                return ("badtype", repr(v))
            return int(v)
        if kind == "bool":
            if not isinstance(v, bool):
                problems.append((path, f"type:{type(v).__name__}-for-bool"))
                return ("badtype", repr(v))
            return v
        if kind in ("float", "double"):
            if isinstance(v, bool) or not isinstance(v, (float, int)):
                problems.append((path, f"type:{type(v).__name__}-for-{kind}"))
                return ("badtype", repr(v))
            return norm_leaf(kind, float(v))
        if kind == "string":
            if not isinstance(v, str):
                problems.append((path, f"type:{type(v).__name__}-for-string"))
                return ("badtype", repr(v))
            return v
        if kind == "bytes":
            if not isinstance(v, (bytes, bytearray)):
                problems.append((path, f"type:{type(v).__name__}-for-bytes"))
                return ("badtype", repr(v))
            return bytes(v)
        raise KeyError(kind)

    def norm(self, mi: MsgInfo, m, problems: Optional[list] = None, path: str = "") -> dict:
        """Reads m through the public API only."""
        import betterproto

        if problems is None:
            problems = []
        cls = type(m)
        names = attr_names(cls)
        out: Dict[int, Any] = {}
        selected = {}
        for g in mi.oneofs:
            nm, _ = betterproto.which_one_of(m, g)
            selected[g] = nm
        for fi in mi.fields:
            nm = names.get(fi.number)
            p = f"{path}/{fi.number}"
            if nm is None:
                problems.append((p, "field-missing-in-class"))
                continue
            if fi.label == "oneof":
                if selected.get(fi.group) != nm:
                    continue
                out[fi.number] = self.norm_leaf(fi, getattr(m, nm), problems, p)
                continue
            v = getattr(m, nm)
            if fi.label == "repeated":
                if not isinstance(v, list):
                    problems.append((p, f"type:{type(v).__name__}-for-repeated"))
                    out[fi.number] = ("badtype", repr(v))
                    continue
                if v:
                    out[fi.number] = [self.norm_leaf(fi, x, problems, f"{p}[{i}]") for i, x in enumerate(v)]
            elif fi.label == "map":
                if not isinstance(v, dict):
                    problems.append((p, f"type:{type(v).__name__}-for-map"))
                    out[fi.number] = ("badtype", repr(v))
                    continue
                if v:
                    d = {}
                    for k, x in v.items():
                        nk = self._norm_scalar(fi.map_key.kind, k, problems, f"{p}{{key}}")
                        if isinstance(nk, tuple):
                            nk = ("k",) + nk
                        d[nk] = self.norm_leaf(fi.map_value, x, problems, f"{p}{{val}}")
                    out[fi.number] = d
            elif fi.label == "optional":
                if v is None:
                    continue
                out[fi.number] = self.norm_leaf(fi, v, problems, p)
            else:  # singular
                if fi.wkt and fi.wkt.startswith("wrapper:"):
                    if v is None:
                        continue
                    out[fi.number] = self.norm_leaf(fi, v, problems, p)
                elif fi.wkt in ("timestamp", "duration"):
                    if v is None:
                        problems.append((p, "none-for-singular-" + fi.wkt))
                        continue
                    nv = self.norm_leaf(fi, v, problems, p)
                    if nv[0] in ("ts", "du") and (nv[1], nv[2]) == (0, 0):
                        continue
                    out[fi.number] = nv
                elif fi.kind == "message":
                    if v is None:
                        problems.append((p, "none-for-singular-message"))
                        continue
                    if not isinstance(v, betterproto.Message):
                        problems.append((p, f"type:{type(v).__name__}-for-message"))
                        out[fi.number] = ("badtype", repr(v))
                        continue
                    if betterproto.serialized_on_wire(v):
                        out[fi.number] = self.norm(self.b.msgs[fi.type_name], v, problems, p)
                else:
                    if v is None:
                        problems.append((p, "none-for-singular-scalar"))
                        continue
                    nv = self.norm_leaf(fi, v, problems, p)
                    if nv == default_of(fi) and not is_negzero(nv):
                        continue
                    out[fi.number] = nv
        return out


# ---------------------------------------------------------------------------
# reference side

class REF:
    def __init__(self, build: Build):
        self.b = build

    def make(self, mi: MsgInfo, tree: dict):
        m = self.b.ref_class(mi.full_name)()
        self.fill(m, mi, tree)
        return m

    def _set_leaf_msg(self, sub, fi: FieldInfo, v):
        """fill an already attached sub-message object"""
        if fi.wkt in ("timestamp", "duration"):
            sub.seconds = v[1]
            sub.nanos = v[2]
        elif fi.wkt and fi.wkt.startswith("wrapper:"):
            sub.value = float("nan") if v == NAN else v
        else:
            self.fill(sub, self.b.msgs[fi.type_name], v)

    def fill(self, m, mi: MsgInfo, tree: dict) -> None:
        for fi in mi.fields:
            if fi.number not in tree:
                continue
            v = tree[fi.number]
            if fi.label == "repeated":
                rep = getattr(m, fi.name)
                for x in v:
                    if fi.kind == "message":
                        self._set_leaf_msg(rep.add(), fi, x)
                    else:
                        rep.append(float("nan") if x == NAN else x)
            elif fi.label == "map":
                mp = getattr(m, fi.name)
                mv = fi.map_value
                for k, x in v.items():
                    if mv.kind == "message":
                        sub = mp[k]
                        self._set_leaf_msg(sub, mv, x)
                    else:
                        mp[k] = float("nan") if x == NAN else x
            else:
                if fi.kind == "message":
                    sub = getattr(m, fi.name)
                    sub.SetInParent()
                    self._set_leaf_msg(sub, fi, v)
                else:
                    setattr(m, fi.name, float("nan") if v == NAN else v)

    def norm_leaf_msg(self, fi: FieldInfo, sub):
        if fi.wkt == "timestamp":
            return ("ts", sub.seconds, sub.nanos)
        if fi.wkt == "duration":
            return ("du", sub.seconds, sub.nanos)
        if fi.wkt and fi.wkt.startswith("wrapper:"):
            return norm_leaf(fi.wkt.split(":")[1], sub.value)
        return self.norm(self.b.msgs[fi.type_name], sub)

    def norm(self, mi: MsgInfo, m) -> dict:
        out: Dict[int, Any] = {}
        for fi in mi.fields:
            if fi.label == "repeated":
                rep = getattr(m, fi.name)
                if len(rep):
                    if fi.kind == "message":
                        out[fi.number] = [self.norm_leaf_msg(fi, x) for x in rep]
                    else:
                        out[fi.number] = [norm_leaf(fi.kind, x) for x in rep]
            elif fi.label == "map":
                mp = getattr(m, fi.name)
                if len(mp):
                    mv = fi.map_value
                    d = {}
                    for k in mp:
                        x = mp[k]
                        d[k] = self.norm_leaf_msg(mv, x) if mv.kind == "message" else norm_leaf(mv.kind, x)
                    out[fi.number] = d
            elif fi.kind == "message":
                if not m.HasField(fi.name):
                    continue
                nv = self.norm_leaf_msg(fi, getattr(m, fi.name))
                if fi.label == "singular" and fi.wkt in ("timestamp", "duration") and (nv[1], nv[2]) == (0, 0):
                    continue
                out[fi.number] = nv
            else:
                if fi.label in ("optional", "oneof"):
                    if not m.HasField(fi.name):
                        continue
                    out[fi.number] = norm_leaf(fi.kind, getattr(m, fi.name))
                else:
                    nv = norm_leaf(fi.kind, getattr(m, fi.name))
                    if nv == default_of(fi) and not is_negzero(nv):
                        continue
                    out[fi.number] = nv
        return out


# ---------------------------------------------------------------------------
# diff

@dataclasses.dataclass
class Diff:
    path: str
    fi: Optional[FieldInfo]
    where: str  # value | presence-lost | presence-gained | length | keys | type
    a: Any
    b: Any
    mi: Optional[MsgInfo] = None

    def short(self) -> str:
        return f"{self.path}: {self.where}: {_short(self.a)} vs {_short(self.b)}"


def _short(v, n=120):
    s = repr(v)
    return s if len(s) <= n else s[: n - 3] + "..."


def diff_trees(build: Build, mi: MsgInfo, a: dict, b: dict, path: str = "") -> List[Diff]:
    """a = expected, b = observed"""
    out: List[Diff] = []
    for fi in mi.fields:
        p = f"{path}/{fi.number}"
        ina, inb = fi.number in a, fi.number in b
        if not ina and not inb:
            continue
        if ina and not inb:
            out.append(Diff(p, fi, "presence-lost", a[fi.number], None, mi))
            continue
        if inb and not ina:
            out.append(Diff(p, fi, "presence-gained", None, b[fi.number], mi))
            continue
        va, vb = a[fi.number], b[fi.number]
        if fi.label == "repeated":
            if not isinstance(vb, list) or not isinstance(va, list):
                out.append(Diff(p, fi, "type", va, vb, mi))
            elif len(va) != len(vb):
                out.append(Diff(p, fi, "length", va, vb, mi))
            else:
                for i, (x, y) in enumerate(zip(va, vb)):
                    out.extend(_diff_leaf(build, mi, fi, x, y, f"{p}[{i}]"))
        elif fi.label == "map":
            if not isinstance(vb, dict) or not isinstance(va, dict):
                out.append(Diff(p, fi, "type", va, vb, mi))
            elif set(map(_keyrepr, va)) != set(map(_keyrepr, vb)):
                out.append(Diff(p, fi, "keys", sorted(map(_keyrepr, va)), sorted(map(_keyrepr, vb)), mi))
            else:
                bk = {_keyrepr(k): v for k, v in vb.items()}
                for k, x in va.items():
                    out.extend(_diff_leaf(build, mi, fi.map_value, x, bk[_keyrepr(k)], f"{p}{{{k!r}}}", outer=fi))
        else:
            out.extend(_diff_leaf(build, mi, fi, va, vb, p))
    for k in b:
        if not any(fi.number == k for fi in mi.fields):
            out.append(Diff(f"{path}/{k}", None, "extra-field", None, b[k], mi))
    return out


def _keyrepr(k):
    return (type(k).__name__, repr(k))


def _diff_leaf(build, mi, fi, x, y, p, outer=None) -> List[Diff]:
    if fi.kind == "message" and fi.wkt is None:
        if isinstance(x, dict) and isinstance(y, dict):
            return diff_trees(build, build.msgs[fi.type_name], x, y, p)
        return [Diff(p, outer or fi, "type", x, y, mi)]
    if type(x) is not type(y) and not (isinstance(x, (int, float)) and isinstance(y, (int, float))
                                        and not isinstance(x, bool) and not isinstance(y, bool)):
        return [Diff(p, outer or fi, "type", x, y, mi)]
    if x != y or is_negzero(x) != is_negzero(y):
        return [Diff(p, outer or fi, "value", x, y, mi)]
    return []


def diff_signature(build: Build, d: Diff) -> List[str]:
    """(carrier kind/label, value class, failure kind)"""
    fi = d.fi
    if fi is None:
        return ["?", "?", d.where]
    v = d.a if d.a is not None else d.b
    inner = fi
    if fi.label == "map" and fi.map_value is not None:
        carrier = f"map<{fi.map_key.kind},{fi.map_value.wkt or fi.map_value.kind}>"
        inner = fi.map_value
    else:
        carrier = fi.cls_key()
    if isinstance(v, list):
        vc = "list"
    elif isinstance(v, dict) and fi.label == "map":
        vc = "map"
    else:
        vc = value_class(inner.wkt.split(":")[1] if inner.wkt and inner.wkt.startswith("wrapper:") else inner.kind,
                         v, build, inner.type_name)
    return [carrier, vc, d.where]


# ---------------------------------------------------------------------------
# JSON-able witness encoding of trees

def tree_to_json(t):
    if isinstance(t, dict):
        return {"$d": [[tree_to_json(k), tree_to_json(v)] for k, v in t.items()]}
    if isinstance(t, list):
        return [tree_to_json(x) for x in t]
    if isinstance(t, tuple):
        return {"$t": [tree_to_json(x) for x in t]}
    if isinstance(t, bytes):
        return {"$b": t.hex()}
    if isinstance(t, float):
        if math.isnan(t):
            return {"$f": "nan"}
        if math.isinf(t):
            return {"$f": "inf" if t > 0 else "-inf"}
        return {"$f": t.hex()}
    return t


def tree_from_json(j):
    if isinstance(j, dict):
        if "$d" in j:
            return {tree_from_json(k): tree_from_json(v) for k, v in j["$d"]}
        if "$t" in j:
            return tuple(tree_from_json(x) for x in j["$t"])
        if "$b" in j:
            return bytes.fromhex(j["$b"])
        if "$f" in j:
            s = j["$f"]
            if s == "nan":
                return float("nan")
            if s in ("inf", "-inf"):
                return float(s)
            return float.fromhex(s)
    if isinstance(j, list):
        return [tree_from_json(x) for x in j]
    return j
