"""Runner: shards a check over worker subprocesses, merges what the monitors observed,
classifies violations against known_findings.json, confirms unknown ones by replay in a
fresh process, writes evidence and prints the verdict lines.

A check module (vf/checks/cNN.py) provides:
    PROP, LEVEL, RULE, ASSUMPTIONS
    plan(tier, seed) -> list[dict]            JSON-able shard descriptors
    run_shard(shard) -> Result                executed in a worker subprocess
    replay(witness) -> list[violation dict]   re-executes one witness (fresh process)
    FLOORS (optional) dict: minimum counters for a conclusive run
"""
from __future__ import annotations

import hashlib
import importlib
import json
import os
import subprocess
import sys
import time
import traceback
from collections import Counter
from concurrent.futures import ThreadPoolExecutor
from typing import Any, Dict, List, Optional

from . import VERIF_DIR, env

# overridable only for self-validation runs against scratch copies (tools/mutant_matrix.py), so that those runs
# never overwrite the evidence of the real tree
EVIDENCE_DIR = os.environ.get("VERIF_EVIDENCE_DIR", os.path.join(VERIF_DIR, "evidence"))
REPLAY_DIR = os.environ.get("VERIF_REPLAY_DIR", os.path.join(VERIF_DIR, "replays"))
FINDINGS_FILE = os.path.join(VERIF_DIR, "known_findings.json")
MAX_WORKERS = int(os.environ.get("VERIF_JOBS", "16"))


class Result:
    """What one shard's monitors observed."""

    def __init__(self):
        self.evaluations = 0
        self.distinct: set = set()
        self.distinct_extra = 0  # distinct cases counted without storing keys (disjoint by construction)
        self.counters: Counter = Counter()
        self.violations: List[dict] = []
        self.samples: List[Any] = []
        self.inconclusive: List[str] = []
        self.discards: Counter = Counter()
        self.extra: Dict[str, Any] = {}
        self._seen_sig: Counter = Counter()

    def note(self, key: str, n: int = 1) -> None:
        self.counters[key] += n

    def case(self, distinct_key: Optional[str] = None) -> None:
        self.evaluations += 1
        if distinct_key is not None:
            self.distinct.add(distinct_key)

    def sample(self, s: Any, cap: int = 4) -> None:
        if len(self.samples) < cap:
            self.samples.append(s)

    def violation(self, sub: str, sig: List[str], msg: str, witness: dict) -> None:
        """sig: mechanism signature (list of strings); at most 3 witnesses kept per signature"""
        key = json.dumps([sub, sig])
        self._seen_sig[key] += 1
        if self._seen_sig[key] <= 3:
            self.violations.append({"sub": sub, "sig": list(sig), "msg": msg[:2000], "witness": witness,
                                    "count": 1})
        else:
            for v in self.violations:
                if v["sub"] == sub and v["sig"] == list(sig):
                    v["count"] += 1
                    break

    def to_json(self) -> dict:
        return {
            "evaluations": self.evaluations, "distinct": sorted(self.distinct), "distinct_extra": self.distinct_extra, "counters": dict(self.counters),
            "violations": self.violations, "samples": self.samples, "inconclusive": self.inconclusive,
            "discards": dict(self.discards), "extra": self.extra,
        }


def load_check(prop: str):
    return importlib.import_module(f"vf.checks.{prop.lower()}")


# ---------------------------------------------------------------------------
# worker entry (python -m vf.core worker Cxx shard.json out.json)

def _worker_main(argv: List[str]) -> int:
    prop, shard_path, out_path = argv
    env.activate()
    import faulthandler

    faulthandler.enable()
    mod = load_check(prop)
    with open(shard_path) as fh:
        shard = json.load(fh)
    reach = _start_reach()
    try:
        if shard.get("__replay__") and isinstance(shard.get("witness"), dict) and shard["witness"].get("__shard__"):
            vs = mod.run_shard(shard["witness"]["__shard__"]).violations
            res = Result()
            res.evaluations = 1
            res.violations.extend(vs)
        elif shard.get("__replay__"):
            vs = mod.replay(shard["witness"])
            res = Result()
            res.evaluations = 1
            for v in vs:
                res.violations.append(v)
        else:
            res = mod.run_shard(shard)
        out = res.to_json()
        out["reach"] = sorted(reach)
    except BaseException as e:  # harness failure, not a verdict
        out = Result().to_json()
        out["inconclusive"] = [f"worker crashed: {type(e).__name__}: {e}\n{traceback.format_exc()[-2500:]}"]
    with open(out_path, "w") as fh:
        json.dump(out, fh)
    return 0


def _start_reach() -> set:
    """reach monitor: which functions of the tree under test were entered in this worker (sys.monitoring
    PY_START, each code object disabled after its first hit, so the overhead is a one-off per function)"""
    seen: set = set()
    try:
        mon = sys.monitoring
        tool = mon.COVERAGE_ID
        mon.use_tool_id(tool, "vf-reach")
        prefix = os.path.realpath(env.SRC) + os.sep

        def on_start(code, offset):
            fn = code.co_filename
            if fn.startswith(prefix):
                seen.add(fn[len(prefix):] + ":" + code.co_qualname)
            return mon.DISABLE

        mon.register_callback(tool, mon.events.PY_START, on_start)
        mon.set_events(tool, mon.events.PY_START)
    except Exception:
        pass
    return seen


def run_worker(prop: str, shard: dict, timeout: int, tag: str) -> dict:
    os.makedirs(env.WORK, exist_ok=True)
    sp = os.path.join(env.WORK, f"shard_{os.getpid()}_{tag}.json")
    op = os.path.join(env.WORK, f"out_{os.getpid()}_{tag}.json")
    with open(sp, "w") as fh:
        json.dump(shard, fh)
    cmd = [sys.executable, "-X", "dev", "-W", "ignore", "-m", "vf.core", "worker", prop, sp, op]
    e = env.child_env()
    t_start = time.time()
    try:
        r = subprocess.run(cmd, capture_output=True, text=True, env=e, cwd=VERIF_DIR, timeout=timeout)
        if os.path.exists(op):
            with open(op) as fh:
                out = json.load(fh)
        else:
            out = Result().to_json()
            out["inconclusive"] = [f"worker produced no output rc={r.returncode} stderr={r.stderr[-2000:]}"]
        out["stderr_tail"] = r.stderr[-1500:]
        out["wall"] = time.time() - t_start
    except subprocess.TimeoutExpired:
        out = Result().to_json()
        out["inconclusive"] = [f"watchdog: worker {tag} exceeded {timeout}s"]
    finally:
        for p in (sp, op):
            try:
                os.remove(p)
            except OSError:
                pass
    return out


# ---------------------------------------------------------------------------
# findings

def load_findings() -> List[dict]:
    try:
        with open(FINDINGS_FILE) as fh:
            return json.load(fh).get("findings", [])
    except FileNotFoundError:
        return []


def _match(pattern: List[str], sig: List[str]) -> bool:
    if len(pattern) != len(sig):
        return False
    for p, s in zip(pattern, sig):
        if p == "*":
            continue
        if p.startswith("re:"):
            import re

            if not re.fullmatch(p[3:], s):
                return False
            continue
        if p.endswith("*"):
            if not s.startswith(p[:-1]):
                return False
        elif "|" in p:
            if s not in p.split("|"):
                return False
        elif p != s:
            return False
    return True


def classify(prop: str, v: dict, findings: List[dict]) -> Optional[dict]:
    for f in findings:
        if f.get("status", "known") != "known" or f.get("property") != prop:
            continue
        fs = f.get("sub")
        if fs not in (None, "*") and v["sub"] not in str(fs).split("|"):
            continue
        if _match(f["sig"], v["sig"]):
            return f
    return None


# ---------------------------------------------------------------------------
# main driver

def run_check(prop: str, tier: str, seed: int, replay_path: Optional[str] = None) -> int:
    t0 = time.time()
    env.activate()
    mod = load_check(prop)
    os.makedirs(EVIDENCE_DIR, exist_ok=True)
    os.makedirs(REPLAY_DIR, exist_ok=True)
    findings = load_findings()

    if replay_path:
        with open(replay_path) as fh:
            rep = json.load(fh)
        out = run_worker(prop, {"__replay__": True, "witness": rep["witness"]}, 600, "replay")
        if out["inconclusive"]:
            print(f"INCONCLUSIVE property={prop} reason={out['inconclusive'][0][:300]}")
            return 2
        bad = [v for v in out["violations"] if classify(prop, v, findings) is None]
        for v in out["violations"]:
            f = classify(prop, v, findings)
            if f is not None:
                print(f"KNOWN-FINDING: property={prop} {f['what']}")
        if bad:
            print(f"  {bad[0]['sub']} {bad[0]['sig']}: {bad[0]['msg'][:500]}")
            print(f"VIOLATION property={prop} replay={replay_path}")
            return 1
        print(f"replay: property {prop} held on the witness")
        return 0

    # stale replay files of this property belong to earlier runs
    for fn in os.listdir(REPLAY_DIR):
        if fn.startswith(prop + "-") and fn.endswith(".json"):
            try:
                os.remove(os.path.join(REPLAY_DIR, fn))
            except OSError:
                pass
    shards = mod.plan(tier, seed)
    timeout = getattr(mod, "SHARD_TIMEOUT", {"quick": 600, "thorough": 3600})[tier]
    with ThreadPoolExecutor(max_workers=MAX_WORKERS) as ex:
        outs = list(ex.map(lambda it: run_worker(prop, it[1], timeout, str(it[0])), enumerate(shards)))

    merged = Result()
    stderr_tails = []
    reach_all: set = set()
    for oi, o in enumerate(outs):
        reach_all.update(o.get("reach", []))
        merged.evaluations += o["evaluations"]
        merged.distinct.update(o["distinct"])
        merged.distinct_extra += o.get("distinct_extra", 0)
        merged.counters.update(o["counters"])
        merged.discards.update(o["discards"])
        merged.inconclusive.extend(o["inconclusive"])
        for s in o["samples"]:
            merged.sample(s, cap=6)
        for k, val in o.get("extra", {}).items():
            if isinstance(val, (int, float)) and isinstance(merged.extra.get(k, 0), (int, float)):
                merged.extra[k] = merged.extra.get(k, 0) + val
            elif isinstance(val, list):
                merged.extra.setdefault(k, [])
                for x in val:
                    if x not in merged.extra[k] and len(merged.extra[k]) < 200:
                        merged.extra[k].append(x)
            elif isinstance(val, dict):
                d = merged.extra.setdefault(k, {})
                for kk, vv in val.items():
                    if isinstance(vv, (int, float)):
                        d[kk] = d.get(kk, 0) + vv
                    else:
                        d.setdefault(kk, vv)
            else:
                merged.extra.setdefault(k, val)
        for v in o["violations"]:
            v.setdefault("_shard", oi)
        merged.violations.extend(o["violations"])

    # anchors: the functions the property is anchored in must have been entered by the workload
    anchors = getattr(mod, "ANCHORS", [])
    missing_anchors = [a for a in anchors if not any(r.endswith(a) for r in reach_all)]
    # (recorded in the evidence only: a refactoring that renames an anchored function must not change the verdict)
    # floors: a run that observed too little is inconclusive, not "held"
    floors = getattr(mod, "FLOORS", {})
    if floors and isinstance(next(iter(floors.values())), dict):
        # floors only guard against "the monitors observed (almost) nothing": the quick floors apply to both tiers
        # (several counters are finite and do not grow with the tier)
        fl = dict(floors.get("quick", {}))
    else:
        fl = floors
    for k, need in (fl or {}).items():
        have = merged.evaluations if k == "evaluations" else (
            len(merged.distinct) + merged.distinct_extra if k == "distinct" else merged.counters.get(k, 0))
        if have < need:
            merged.inconclusive.append(f"floor not reached: {k}={have} < {need}")

    # group violations by (sub, sig)
    groups: Dict[str, dict] = {}
    for v in merged.violations:
        key = json.dumps([v["sub"], v["sig"]])
        g = groups.setdefault(key, {"sub": v["sub"], "sig": v["sig"], "msg": v["msg"], "witness": v["witness"],
                                    "count": 0, "_shard": v.get("_shard")})
        g["count"] += v.get("count", 1)
    known_hit: Dict[str, dict] = {}
    unknown: List[dict] = []
    for g in groups.values():
        f = classify(prop, g, findings)
        if f is not None:
            known_hit.setdefault(f["id"], {"finding": f, "count": 0, "sigs": []})
            known_hit[f["id"]]["count"] += g["count"]
            if len(known_hit[f["id"]]["sigs"]) < 5:
                known_hit[f["id"]]["sigs"].append(g["sig"])
        else:
            unknown.append(g)

    # confirm unknown violations by replaying in a fresh process (SUT is deterministic)
    confirmed, flaky = [], []
    with ThreadPoolExecutor(max_workers=MAX_WORKERS) as ex:
        conf_outs = list(ex.map(lambda it: run_worker(prop, {"__replay__": True, "witness": it[1]["witness"]}, 600,
                                                      f"confirm{it[0]}"), enumerate(unknown[:12])))
    for g, out in zip(unknown[:12], conf_outs):
        same = [v for v in out["violations"] if v["sub"] == g["sub"]]
        if out["inconclusive"] or not same:
            # the witness alone does not show it: the violation may depend on what happened EARLIER in the same process
            # (a cache, a shared buffer).  Re-run the whole shard it came from in a fresh process; if the same signature
            # comes back, the shard is the witness.
            si = g.get("_shard")
            if si is not None and 0 <= si < len(shards) and not shards[si].get("__replay__"):
                again = run_worker(prop, shards[si], timeout, f"confirm-shard{si}")
                if any(v["sub"] == g["sub"] and v["sig"] == g["sig"] for v in again["violations"]):
                    g["witness"] = {"__shard__": shards[si], "case": g["witness"]}
                    g["msg"] = "[needs the history of its shard] " + g["msg"]
                    confirmed.append(g)
                    continue
            flaky.append(g)
        else:
            confirmed.append(g)
    confirmed.extend(unknown[12:])
    for g in flaky:
        merged.inconclusive.append(f"violation did not reproduce in a fresh process: {g['sub']} {g['sig']} {g['msg'][:200]}")

    replay_files = []
    for g in confirmed:
        h = hashlib.sha256(json.dumps([g["sub"], g["sig"]]).encode()).hexdigest()[:12]
        rp = os.path.join(REPLAY_DIR, f"{prop}-{h}.json")
        with open(rp, "w") as fh:
            json.dump({"property": prop, "sub": g["sub"], "sig": g["sig"], "msg": g["msg"], "witness": g["witness"],
                       "seed": seed, "tier": tier}, fh, indent=1)
        replay_files.append((g, rp))

    wall = time.time() - t0
    coverage = {
        "evaluations": merged.evaluations,
        "distinct_nontrivial": len(merged.distinct) + merged.distinct_extra,
        "rule": mod.RULE,
        "samples": merged.samples[:6] or ["(no sample recorded)"],
        "counters": dict(sorted(merged.counters.items())),
        "discards": dict(merged.discards),
        "shards": len(shards),
        "known_findings_observed": {k: {"count": v["count"], "example_signatures": v["sigs"]} for k, v in known_hit.items()},
        "violation_signatures": [{"sub": g["sub"], "sig": g["sig"], "count": g["count"]} for g in confirmed],
        "inconclusive_reasons": merged.inconclusive[:10],
    }
    coverage["reach"] = {"functions_of_tree_entered": len(reach_all), "anchors_declared": anchors, "anchors_missing": missing_anchors,
                         "sample": sorted(reach_all)[:40]}
    coverage.update(merged.extra)
    if "plugin_reach" in coverage:
        pa = getattr(mod, "PLUGIN_ANCHORS", [])
        pr = coverage.pop("plugin_reach")
        coverage["plugin_reach"] = {"functions_of_plugin_entered": len(pr), "anchors_declared": pa,
                                    "anchors_missing": [a for a in pa if not any(r.endswith(a) for r in pr)], "sample": pr[:30]}
    if hasattr(mod, "coverage_extra"):
        coverage.update(mod.coverage_extra(merged, tier))
    if getattr(mod, "LEVEL", "exploration") == "translation_validation":
        coverage.setdefault("programs", merged.counters.get("programs", 0))
        coverage.setdefault("disagreements_checked", merged.counters.get("comparisons", merged.evaluations))
    ev = {
        "property_id": prop, "tier": tier, "seed": seed, "level": getattr(mod, "LEVEL", "exploration"),
        "coverage": coverage, "assumptions": list(getattr(mod, "ASSUMPTIONS", [])), "wall_s": round(wall, 2),
        "violations": len(confirmed),
        "verdict": "violated" if confirmed else ("inconclusive" if merged.inconclusive else "held-on-explored"),
    }
    with open(os.path.join(EVIDENCE_DIR, f"{prop}.json"), "w") as fh:
        json.dump(ev, fh, indent=1, default=str)

    print(f"[{prop} {tier} seed={seed}] evaluations={merged.evaluations} distinct={len(merged.distinct) + merged.distinct_extra} "
          f"shards={len(shards)} wall={wall:.1f}s")
    slow = sorted(((o.get("wall", 0), i) for i, o in enumerate(outs)), reverse=True)[:3]
    print("  slowest shards: " + ", ".join(f"#{i}:{w:.1f}s" for w, i in slow))
    top = sorted(merged.counters.items(), key=lambda kv: -kv[1])[:14]
    print("  observed: " + ", ".join(f"{k}={v}" for k, v in top))
    for k, v in known_hit.items():
        print(f"KNOWN-FINDING: property={prop} {v['finding']['what']} [id={k} observed={v['count']}]")
    if confirmed:
        for g, rp in replay_files:
            print(f"  {g['sub']} {g['sig']} x{g['count']}: {g['msg'][:400]}")
            print(f"VIOLATION property={prop} replay={rp}")
        return 1
    if merged.inconclusive:
        for r in merged.inconclusive[:5]:
            print(f"INCONCLUSIVE property={prop} reason={r[:600]}")
        return 2
    print(f"HELD property={prop} on everything explored")
    return 0


def main(argv: List[str]) -> int:
    if argv and argv[0] == "worker":
        return _worker_main(argv[1:])
    import argparse

    ap = argparse.ArgumentParser()
    ap.add_argument("prop")
    ap.add_argument("tier", nargs="?", default=os.environ.get("VERIF_TIER", "quick"), choices=["quick", "thorough"])
    ap.add_argument("--replay")
    ap.add_argument("--seed", type=int, default=int(os.environ.get("VERIF_SEED", "0")))
    a = ap.parse_args(argv)
    return run_check(a.prop.upper(), a.tier, a.seed, a.replay)


if __name__ == "__main__":
    sys.exit(main(sys.argv[1:]))
