"""Contract monitors woven on the real functions of the tree under test (icontract).

Conditions *record and return True*: a monitor never raises into the SUT.  Every contract
counts its evaluations; a deciding contract with zero evaluations makes a verdict
inconclusive.  Private helpers are wrapped only when present (otherwise "not woven").
"""
from __future__ import annotations

import dataclasses
import io
import json
import os
import sys
from collections import Counter
from datetime import datetime, timedelta, timezone
from typing import Any, Callable, Dict, List, Optional

from . import spec

try:
    import icontract
except Exception:  # pragma: no cover
    icontract = None


class MonitorBroken(Exception):
    pass


class Log:
    def __init__(self):
        self.evals: Counter = Counter()
        self.violations: List[dict] = []
        self.not_woven: List[str] = []
        self.woven: List[str] = []
        self.context: Optional[dict] = None  # current workload case (set by the check) -> witness
        self.busy = 0
        self._sig_count: Counter = Counter()

    def violation(self, prop: str, sub: str, sig: List[str], msg: str, witness: Optional[dict] = None):
        k = json.dumps([prop, sub, sig])
        self._sig_count[k] += 1
        if self._sig_count[k] <= 3:
            self.violations.append({"prop": prop, "sub": sub, "sig": sig, "msg": msg[:1500],
                                    "witness": witness if witness is not None else (self.context or {"kind": "none"}),
                                    "count": 1})
        else:
            for v in self.violations:
                if v["prop"] == prop and v["sub"] == sub and v["sig"] == sig:
                    v["count"] += 1
                    break


LOG = Log()
_installed: Dict[str, bool] = {}


def set_context(ctx: Optional[dict]) -> None:
    LOG.context = ctx


class _Busy:
    def __enter__(self):
        LOG.busy += 1

    def __exit__(self, *a):
        LOG.busy -= 1


def _ensure(fn: Callable, cond: Callable) -> Callable:
    return icontract.ensure(cond, error=MonitorBroken)(fn)


def _field_summary(m) -> List[str]:
    """proto types (with label-ish info) of the fields actually set on a message; coarse signature"""
    out = set()
    try:
        for f in dataclasses.fields(m):
            meta = f.metadata.get("betterproto")
            if meta is None:
                continue
            try:
                v = object.__getattribute__(m, f.name)
            except Exception:
                continue
            if type(v).__name__ == "Placeholder" or v is None:
                continue
            lab = "optional" if meta.optional else ("oneof" if meta.group else ("repeated" if isinstance(v, list) else "plain"))
            out.add(f"{meta.proto_type}/{lab}")
    except Exception:
        pass
    if getattr(m, "_unknown_fields", b""):
        out.add("unknown-fields")
    return sorted(out)


# ---------------------------------------------------------------------------
# C09: len(m) == len(bytes(m)); C01: outermost bytes re-parse re-encodes identically

def install_bytes_contracts(roundtrip: bool = True) -> None:
    if _installed.get("bytes"):
        return
    _installed["bytes"] = True
    import betterproto

    M = betterproto.Message
    state = {"depth": 0}
    orig = M.__bytes__

    def len_matches(self, result):
        # outermost serialisations only: nested ones would make the monitor quadratic in depth
        if LOG.busy or state["depth"] > 0:
            return True
        with _Busy():
            try:
                LOG.evals["C09.len==len(bytes)"] += 1
                n = len(self)
                if n != len(result):
                    LOG.violation("C09", "len-contract", ["len-contract", "+".join(_field_summary(self))[:200], "len!=len(bytes)"],
                                  f"len(m)={n} but len(bytes(m))={len(result)} for {type(self).__name__} bytes={result.hex()[:200]}")
            except Exception as e:
                LOG.violation("C09", "len-contract", ["len-contract", "+".join(_field_summary(self))[:200], "len-raised:" + type(e).__name__],
                              f"len(m) raised {e!r} for {type(self).__name__} bytes={result.hex()[:200]}")
        return True

    def reencodes(self, result):
        if LOG.busy or state["depth"] > 0:
            return True
        with _Busy():
            try:
                LOG.evals["C01.reparse-reencode"] += 1
                again = orig(type(self)().parse(result))
                if again != result:
                    LOG.violation("C01", "reencode-contract", ["reencode-contract", "+".join(_field_summary(self))[:200], "bytes-differ"],
                                  f"{type(self).__name__}: bytes(parse(b)) != b; b={result.hex()[:300]} again={again.hex()[:300]}")
            except Exception as e:
                LOG.violation("C01", "reencode-contract", ["reencode-contract", "+".join(_field_summary(self))[:200], "raised:" + type(e).__name__],
                              f"{type(self).__name__}: parse(bytes(m)) raised {e!r}; b={result.hex()[:300]}")
        return True

    def counted(self):
        state["depth"] += 1
        try:
            return orig(self)
        finally:
            state["depth"] -= 1

    # post-conditions run after `counted` returned: depth == 0 there means outermost call
    wrapped = _ensure(counted, len_matches)
    if roundtrip:
        wrapped = _ensure(wrapped, reencodes)
    M.__bytes__ = wrapped
    LOG.woven.append("Message.__bytes__")


# ---------------------------------------------------------------------------
# C16 varint contracts

def install_varint_contracts() -> None:
    if _installed.get("varint"):
        return
    _installed["varint"] = True
    import betterproto

    def enc_ok(value, result):
        LOG.evals["C16.encode_varint"] += 1
        try:
            if -(1 << 63) <= value < (1 << 64) and result != spec.enc_varint(value):
                LOG.violation("C16", "encode-canonical", ["encode_varint", "contract", "bytes-differ"],
                              f"encode_varint({value}) = {result.hex()}", {"kind": "int", "x": str(value)})
        except Exception:
            pass
        return True

    def size_ok(value, result):
        LOG.evals["C16.size_varint"] += 1
        try:
            if -(1 << 63) <= value < (1 << 64) and result != spec.varint_len(value):
                LOG.violation("C16", "size", ["size_varint", "contract", "size-differs"],
                              f"size_varint({value}) = {result}", {"kind": "int", "x": str(value)})
        except Exception:
            pass
        return True

    def dec_ok(buffer, pos, result):
        LOG.evals["C16.decode_varint"] += 1
        try:
            v, e = spec.dec_varint(bytes(buffer), pos)
            if v <= spec.MASK64 and result != (v, e):
                LOG.violation("C16", "decode", ["decode_varint", "contract", "wrong-result"],
                              f"decode_varint({bytes(buffer)[pos:pos+11].hex()},0) = {result}",
                              {"kind": "dec", "b": bytes(buffer)[pos:pos + 11].hex()})
        except Exception:
            pass
        return True

    for name, cond in (("encode_varint", enc_ok), ("size_varint", size_ok), ("decode_varint", dec_ok)):
        fn = getattr(betterproto, name, None)
        if fn is None:
            LOG.not_woven.append(name)
            continue
        setattr(betterproto, name, _ensure(fn, cond))
        LOG.woven.append(name)


# ---------------------------------------------------------------------------
# C07 oneof exclusivity after every mutation entry point

_groups_cache: Dict[type, Dict[str, List[str]]] = {}


def _groups(cls) -> Dict[str, List[str]]:
    g = _groups_cache.get(cls)
    if g is None:
        g = {}
        try:
            for f in dataclasses.fields(cls):
                meta = f.metadata.get("betterproto")
                if meta is not None and meta.group and not meta.optional:
                    g.setdefault(meta.group, []).append(f.name)
        except Exception:
            g = {}
        _groups_cache[cls] = g
    return g


def check_exclusive(m, where: str) -> None:
    import betterproto

    groups = _groups(type(m))
    if not groups:
        return
    with _Busy():
        for g, members in groups.items():
            try:
                sel, _ = betterproto.which_one_of(m, g)
            except AttributeError:
                LOG.evals["C07.skipped-preinit"] += 1
                return
            LOG.evals["C07.exclusive@" + where] += 1
            for name in members:
                if name == sel:
                    continue
                try:
                    v = getattr(m, name)
                except AttributeError:
                    continue
                LOG.violation("C07", "exclusive-contract", ["exclusive-contract", where, "unselected-member-readable"],
                              f"{type(m).__name__}.{name} readable ({v!r}) while which_one_of({g}) = {sel!r} after {where}")


def install_oneof_contracts() -> None:
    if _installed.get("oneof"):
        return
    _installed["oneof"] = True
    import betterproto

    M = betterproto.Message

    def after_setattr(self, attr, value, result):
        if not LOG.busy and attr in ("_serialized_on_wire", "_unknown_fields", "_group_current"):
            return True
        if not LOG.busy:
            check_exclusive(self, "__setattr__")
        return True

    def after_load(self, result):
        if not LOG.busy:
            check_exclusive(self, "load")
        return True

    M.__setattr__ = _ensure(M.__setattr__, after_setattr)
    M.load = _ensure(M.load, after_load)
    LOG.woven += ["Message.__setattr__", "Message.load"]


# ---------------------------------------------------------------------------
# C15 conversion contracts

EPOCH = datetime(1970, 1, 1, tzinfo=timezone.utc)


def _dt_ns(dt: datetime):
    if dt.tzinfo is None:
        return None
    d = dt - EPOCH
    us = (d.days * 86400 + d.seconds) * 10**6 + d.microseconds
    s, r = divmod(us, 10**6)
    return s, r * 1000


def _td_ns(td: timedelta):
    us = (td.days * 86400 + td.seconds) * 10**6 + td.microseconds
    if us < 0:
        s, r = divmod(-us, 10**6)
        return -s, -r * 1000
    s, r = divmod(us, 10**6)
    return s, r * 1000


def install_time_contracts() -> None:
    if _installed.get("time"):
        return
    _installed["time"] = True
    import betterproto

    T = getattr(betterproto, "_Timestamp", None)
    D = getattr(betterproto, "_Duration", None)
    if T is None or D is None:
        LOG.not_woven += ["_Timestamp", "_Duration"]
        return

    def wrap_cls(cls, name, check):
        raw = cls.__dict__.get(name)
        if raw is None:
            LOG.not_woven.append(f"{cls.__name__}.{name}")
            return
        fn = raw.__func__ if isinstance(raw, (classmethod, staticmethod)) else raw

        def inner(*a, **kw):
            r = fn(*a, **kw)
            try:
                check(a, kw, r)
            except Exception:
                pass
            return r

        inner.__name__ = name
        if isinstance(raw, classmethod):
            setattr(cls, name, classmethod(inner))
        elif isinstance(raw, staticmethod):
            setattr(cls, name, staticmethod(inner))
        else:
            setattr(cls, name, inner)
        LOG.woven.append(f"{cls.__name__}.{name}")

    def ts_from(a, kw, r):
        dt = a[1]
        LOG.evals["C15.from_datetime"] += 1
        exp = _dt_ns(dt)
        if exp is not None and (r.seconds, r.nanos) != exp:
            LOG.violation("C15", "from_datetime-contract", ["timestamp", "from_datetime", "wrong-pair"],
                          f"from_datetime({dt.isoformat()}) = ({r.seconds},{r.nanos}) expected {exp}",
                          {"kind": "ts", "s": exp[0], "n": exp[1]})
        if not (0 <= r.nanos < 10**9):
            LOG.violation("C15", "from_datetime-contract", ["timestamp", "from_datetime", "nanos-range"],
                          f"from_datetime({dt.isoformat()}) nanos={r.nanos}", {"kind": "ts", "s": r.seconds, "n": 0})

    def du_from(a, kw, r):
        td = a[1]
        LOG.evals["C15.from_timedelta"] += 1
        exp = _td_ns(td)
        if (r.seconds, r.nanos) != exp:
            LOG.violation("C15", "from_timedelta-contract", ["duration", "from_timedelta", "wrong-pair"],
                          f"from_timedelta({td!r}) = ({r.seconds},{r.nanos}) expected {exp}",
                          {"kind": "du", "s": exp[0], "n": exp[1]})

    wrap_cls(T, "from_datetime", ts_from)
    wrap_cls(D, "from_timedelta", du_from)


# ---------------------------------------------------------------------------

def install(which: List[str]) -> None:
    if icontract is None:
        LOG.not_woven.append("icontract-missing")
        return
    for w in which:
        if w == "bytes":
            install_bytes_contracts()
        elif w == "varint":
            install_varint_contracts()
        elif w == "oneof":
            install_oneof_contracts()
        elif w == "time":
            install_time_contracts()


def drain(res, prop: str) -> None:
    """merge what the contracts observed into a shard Result (violations of `prop` only;
    others are counted so that they are visible in the evidence)"""
    for k, v in LOG.evals.items():
        res.counters["contract:" + k] += v
    for v in LOG.violations:
        if v["prop"] == prop:
            for _ in range(1):
                res.violations.append({"sub": v["sub"], "sig": v["sig"], "msg": v["msg"], "witness": v["witness"],
                                       "count": v["count"]})
        else:
            res.counters[f"contract-violation-other:{v['prop']}:{v['sub']}"] += v["count"]
    if LOG.not_woven:
        res.extra["contracts_not_woven"] = sorted(set(LOG.not_woven))
    res.extra["contracts_woven"] = sorted(set(LOG.woven))
    LOG.evals.clear()
    LOG.violations.clear()
    LOG._sig_count.clear()
