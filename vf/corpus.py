"""Schema corpus shared by the value-level checks: the fixed matrix schema, seeded
G-schema sets, and the repository's own tests/inputs directories (read from the tree
under test)."""
from __future__ import annotations

import os
import random
from typing import Dict, List, Optional

from . import VERIF_DIR, env
from .build import Build, BuildError
from .schema_gen import SchemaGen, render_set

# tests/inputs directories that are outside every property's quantifier (recorded in DESIGN):
#  - example: proto2-style readme example, not a test input
#  - googletypes_struct / googletypes_value: google.protobuf.Struct/Value (outside G-schema grammar)
#  - import_capitalized_package: upper-case package name (outside grammar; corpus-only known finding in C03)
INPUTS_SKIP_VALUES = {"example", "googletypes_struct", "googletypes_value", "import_capitalized_package",
                      "namespace_keywords"}


def inputs_dirs() -> List[str]:
    base = os.path.join(env.REPO, "tests", "inputs")
    out = []
    if not os.path.isdir(base):
        return out
    for d in sorted(os.listdir(base)):
        p = os.path.join(base, d)
        if os.path.isdir(p) and any(f.endswith(".proto") for f in os.listdir(p)):
            out.append(d)
    return out


def inputs_protos(d: str) -> Dict[str, str]:
    base = os.path.join(env.REPO, "tests", "inputs", d)
    return {f: open(os.path.join(base, f)).read() for f in sorted(os.listdir(base)) if f.endswith(".proto")}


def matrix_protos() -> Dict[str, str]:
    return {"matrix.proto": open(os.path.join(VERIF_DIR, "protos", "matrix.proto")).read()}


def gen_protos(seed: int, **kw) -> Dict[str, str]:
    rng = random.Random(f"schema-{seed}")
    kw.setdefault("names", "keywords")
    return render_set(SchemaGen(rng, **kw).gen_set())


FEATURES = {
    "map_only": "message M { map<string, int32> m = 1; }",
    "map_msg_only": "message V { int32 x = 1; } message M { map<int32, V> m = 1; }",
    "repeated_only": "message M { repeated int32 r = 1; }",
    "optional_only": "message M { optional int32 o = 1; }",
    "wrapper_only": 'import "google/protobuf/wrappers.proto"; message M { google.protobuf.Int32Value w = 1; }',
    "oneof_only": "message M { oneof g { int32 a = 1; string b = 2; } }",
    "timestamp_only": 'import "google/protobuf/timestamp.proto"; message M { google.protobuf.Timestamp t = 1; }',
    "duration_only": 'import "google/protobuf/duration.proto"; message M { google.protobuf.Duration d = 1; }',
    "enum_only": "enum E { E_ZERO = 0; E_NEG = -1; } message M { E e = 1; }",
    "scalar_only": "message M { int32 x = 1; }",
    "empty_only": "message M { }",
    "service_only": "message M { int32 x = 1; } service S { rpc U(M) returns (M); rpc SS(stream M) returns (stream M); }",
    "recursive_only": "message M { M child = 1; }",
    "deprecated_only": "message M { option deprecated = true; int32 x = 1 [deprecated = true]; }",
    # a field named like a builtin scalar type, declared FIRST, then fields of that scalar in every label: the order
    # for which the plugin's builtins.<type> qualification is meant to work under every option combination
    # proto names starting with an underscore followed by a digit keep the underscore in Python (_1, _2_fa)
    "underscore_digit_names": "message M { oneof g { int32 _1 = 1; string _2 = 2; M _3m = 7; } int32 _3 = 3; message Inner { int32 _1 = 1; string _2fa = 2; } Inner sub = 4; repeated Inner subs = 5; optional int32 _4 = 6; }",
    # oneof group names that are not plain snake_case (the group name is part of the public API: which_one_of(m, name))
    "oneof_names": "message M { oneof fooBar { int32 a = 1; string b = 2; } oneof foo_bar { int32 c = 3; string d = 4; } oneof class { int32 e = 5; bool f = 6; } oneof _lead { int32 g = 7; bytes h = 8; } oneof Variant { M i = 9; } }",
    # type names made of capitals only / ending in a capital, nested in each other (flattened class names)
    "nested_caps": "message A { message B { int32 x = 1; message C { int32 z = 1; } C c = 2; } enum E { E_ZERO = 0; E_ONE = 1; } B b = 1; E e = 2; repeated B bs = 3; map<string, B> bm = 4; } message TypeA { message X1 { int32 y = 1; } X1 x = 1; A.B ab = 2; A.B.C abc = 3; } message HTTPServer { message TLSConfig { bool on = 1; } TLSConfig tls = 1; }",
    # members whose names start with a digit once the enum-name prefix is stripped (the plugin emits _1, _2_0)
    "enum_digit_members": "enum Version { VERSION_UNSPECIFIED = 0; VERSION_1 = 1; VERSION_2_0 = 2; V3 = 3; version_4 = 4; } message M { Version v = 1; repeated Version r = 2; }",
    # builtin-colliding names that differ from the builtin by case only (the attribute is the lower-case builtin name)
    "builtin_case": "message M { int32 Int = 1; int32 a = 2; repeated int32 b = 3; string STR = 4; string c = 5; bytes Bytes = 6; map<string, bytes> d = 7; optional int32 e = 8; }",
    # enum values that are Python keywords, with and without the enum-name prefix
    "enum_keyword_members": "enum E { None = 0; True = 1; class = 2; lambda = 3; E_in = 4; E_False = 5; } message M { E e = 1; repeated E r = 2; }",
    # aliases (several names for one number) and enums of the well-known types as field types (not NullValue: its JSON form
    # is the special value null, part of the Struct/Value mapping that is outside the grammar)
    "enum_alias": "enum E { option allow_alias = true; E_OFF = 0; E_DISABLED = 0; E_ON = 1; E_ENABLED = 1; E_NEG = -3; E_MINUS = -3; } message M { E e = 1; repeated E r = 2; optional E o = 3; oneof g { E x = 4; int32 y = 5; } map<string, E> m = 6; }",
    "wkt_enum": 'import "google/protobuf/struct.proto"; import "google/protobuf/type.proto"; message M { google.protobuf.Field.Kind n = 1; google.protobuf.Syntax s = 2; repeated google.protobuf.Syntax rs = 3; optional google.protobuf.Syntax os = 4; oneof g { google.protobuf.Syntax gs = 5; int32 gi = 6; } }',
    "builtin_list_dict": "message M { int32 list = 1; repeated int32 a = 2; map<string, int32> dict = 3; map<string, int32> m = 4; optional int32 o = 5; }",
    "builtin_int": "message M { int64 int = 1; repeated int32 a = 2; optional int64 b = 3; map<string, sint32> c = 4; oneof g { uint32 d = 5; string e = 6; } }",
    "builtin_str": "message M { string str = 1; repeated string a = 2; optional string b = 3; map<string, string> c = 4; oneof g { string d = 5; int32 e = 6; } }",
    "builtin_float": "message M { double float = 1; repeated float a = 2; optional double b = 3; map<int32, float> c = 4; oneof g { float d = 5; int32 e = 6; } }",
    "builtin_bool": "message M { bool bool = 1; repeated bool a = 2; optional bool b = 3; map<string, bool> c = 4; oneof g { bool d = 5; int32 e = 6; } }",
    "builtin_bytes": "message M { bytes bytes = 1; repeated bytes a = 2; optional bytes b = 3; map<string, bytes> c = 4; oneof g { bytes d = 5; int32 e = 6; } }",
}


# Multi-file / multi-package layouts that single packages cannot show.  Every set is generated, imported (also with each
# package imported FIRST in a fresh interpreter) and compared like any other program.
_P3 = 'syntax = "proto3";\n'
EXTRA_SETS: Dict[str, Dict[str, str]] = {
    # a package that defines nothing but enums, used from another package
    "enum_only_pkg": {
        "xe_enums.proto": _P3 + "package vfx.enums;\nenum Color { COLOR_UNSPECIFIED = 0; COLOR_RED = 1; COLOR_NEG = -1; }\nenum Size { SMALL = 0; LARGE = 2; }\n",
        "xe_user.proto": _P3 + 'package vfx.user;\nimport "xe_enums.proto";\nmessage M { vfx.enums.Color c = 1; repeated vfx.enums.Size s = 2; '
                         "map<string, vfx.enums.Color> m = 3; oneof g { vfx.enums.Size os = 4; int32 oi = 5; } optional vfx.enums.Color oc = 6; }\n",
    },
    # files are acyclic, PACKAGES are not: one package spread over two non-consecutive files
    "package_cycle": {
        "pc_users_defs.proto": _P3 + "package vfshop.users;\nmessage User { string name = 1; repeated int32 scores = 2; }\nenum Role { ROLE_NONE = 0; ROLE_ADMIN = 1; }\n",
        "pc_orders.proto": _P3 + 'package vfshop.orders;\nimport "pc_users_defs.proto";\nmessage Order { vfshop.users.User buyer = 1; vfshop.users.Role role = 2; '
                           "map<string, vfshop.users.User> watchers = 3; optional int64 id = 4; }\n",
        "pc_users_hist.proto": _P3 + 'package vfshop.users;\nimport "pc_orders.proto";\nimport "pc_users_defs.proto";\nmessage History { repeated vfshop.orders.Order orders = 1; User owner = 2; '
                               "oneof last { vfshop.orders.Order last_order = 3; string note = 4; } }\n",
    },
    # the package-less (root) protos and a child package referring to each other
    "root_cycle": {
        "rc_root_defs.proto": _P3 + "message RootMsg { int32 x = 1; message Inner { string s = 1; } Inner inner = 2; }\nenum RootKind { ROOT_KIND_ZERO = 0; ROOT_KIND_ONE = 1; }\n",
        "rc_child.proto": _P3 + 'package vfkid;\nimport "rc_root_defs.proto";\nmessage Kid { RootMsg r = 1; RootMsg.Inner ri = 2; RootKind k = 3; repeated RootMsg rs = 4; }\n',
        "rc_root_refs.proto": _P3 + 'import "rc_child.proto";\nmessage RootUser { vfkid.Kid kid = 1; map<string, vfkid.Kid> kids = 2; }\n',
    },
    # deprecation: an RPC only (no deprecated message / field in the package); deprecated fields whose proto name is not
    # their Python name
    "deprecated_rpc_only": {
        "dr_svc.proto": _P3 + "package vfdep.rpc;\nmessage Req { int32 x = 1; }\nmessage Rep { int32 y = 1; }\n"
                        "service Legacy { rpc Old(Req) returns (Rep) { option deprecated = true; } rpc Current(Req) returns (Rep); "
                        "rpc OldStream(Req) returns (stream Rep) { option deprecated = true; } }\n",
        "dr_fields.proto": _P3 + "package vfdep.fields;\nmessage M { int32 userId = 1 [deprecated = true]; string HTTPStatus = 2 [deprecated = true]; "
                           "bool from = 3 [deprecated = true]; int32 plain = 4; }\n",
    },
    # map fields whose names protoc and the plugin case differently; a map next to a field called <map>_value; types
    # nested in messages whose class name needs the keyword / identifier guard
    "odd_map_and_nested_names": {
        "om_maps.proto": _P3 + "package vfodd.maps;\nmessage V { int32 x = 1; string s = 2; }\nmessage W { string t = 1; repeated int32 u = 2; }\nmessage M { map<string, int32> HTTPStatus = 1; map<string, V> userID = 2; "
                         "map<int32, string> APIKeys = 3; map<string, V> sha256sum = 4; map<string, bool> md5sums = 5; map<string, V> oauth2scopes = 6; "
                         "map<string, V> items = 7; W items_value = 8; map<string, W> items_entry = 9; W items_key = 10; map<int32, W> more = 11; V more_value = 12; }\n",
        "om_nested.proto": _P3 + "package vfodd.nested;\nmessage Holder { message _1st { int32 x = 1; } _1st first = 1; repeated _1st firsts = 2; }\n"
                           "message None { message Inner { int32 y = 1; } Inner inner = 1; map<string, Inner> inners = 2; }\n"
                           "message True { enum Kind { KIND_ZERO = 0; KIND_ONE = 1; } Kind k = 1; message Deep { message Deeper { int32 z = 1; } Deeper d = 1; } Deep deep = 2; }\n"
                           "message User { None n = 1; None.Inner ni = 2; True.Kind tk = 3; Holder._1st h = 4; }\n",
    },
    # map fields of ONE message whose names differ only by underscores / letter case (their entry types ABEntry / AbEntry
    # are distinct for protoc), with different key and value types
    "twin_map_names": {
        "tm_maps.proto": _P3 + "package vftwin.maps;\nmessage V { int32 x = 1; }\nmessage W { string t = 1; }\nmessage M { map<string, int32> a_b = 1; map<int64, bytes> ab = 2; "
                         "map<string, V> foo_bar = 3; map<int32, W> foobar = 4; map<bool, string> HTTP_code = 5; map<string, double> httpcode = 6; "
                         "message Inner { map<uint32, V> k_v = 1; map<string, W> kv = 2; } Inner inner = 7; }\n",
        # user messages NAMED like the entry type protoc synthesizes for a map of the same message (LogEntry next to
        # map<..> log), in another package and in the same package, used as repeated / singular / oneof fields there
        "tm_entries.proto": _P3 + 'package vftwin.entries;\nimport "tm_other.proto";\nmessage LogEntry { string key = 1; int64 at = 2; }\n'
                            "message Batch { map<string, string> log = 1; repeated vftwin.other.LogEntry entries = 2; repeated .vftwin.entries.LogEntry own = 3; "
                            "vftwin.other.LogEntry one = 4; oneof pick { vftwin.other.LogEntry picked = 5; int32 none = 6; } map<int32, vftwin.other.LogEntry> by_id = 7; }\n"
                            "message NoMap { repeated vftwin.other.LogEntry entries = 1; }\n",
        "tm_other.proto": _P3 + "package vftwin.other;\nmessage LogEntry { string key = 1; bytes value = 2; repeated int32 n = 3; }\n",
    },
    # valid proto3 constructs that carry no fields of their own but that a plugin reads past: custom options declared with
    # `extend google.protobuf.*Options` at file level and inside a message (and used on files, messages, fields, oneofs,
    # enums, enum values, services and methods), reserved ranges and names, json_name, packed=false, import public,
    # empty statements, the largest field number
    "rare_constructs": {
        "rcx_options.proto": _P3 + 'package vfrare.opts;\nimport "google/protobuf/descriptor.proto";\n'
                             "extend google.protobuf.FileOptions { string file_tag = 50000; }\n"
                             "extend google.protobuf.MessageOptions { int32 msg_level = 50001; }\n"
                             "extend google.protobuf.FieldOptions { string rule = 50002; bool sensitive = 50003; }\n"
                             "extend google.protobuf.OneofOptions { bool exclusive = 50004; }\n"
                             "extend google.protobuf.EnumOptions { string enum_doc = 50005; }\n"
                             "extend google.protobuf.EnumValueOptions { string label = 50006; }\n"
                             "extend google.protobuf.ServiceOptions { string host = 50007; }\n"
                             "extend google.protobuf.MethodOptions { Audit audit = 50008; }\n"
                             'option (file_tag) = "t";\n'
                             "message Audit { string who = 1; int32 level = 2; }\n"
                             'message Account { option (msg_level) = 3; string owner = 1 [(rule) = "nonempty", (sensitive) = true]; '
                             "extend google.protobuf.FieldOptions { int32 weight = 50010; } int64 balance = 2 [(Account.weight) = 7]; "
                             'oneof kind { option (exclusive) = true; string iban = 3; int32 legacy_no = 4 [(rule) = "positive"]; } repeated Audit trail = 5; }\n'
                             'enum Tier { option (enum_doc) = "tiers"; TIER_FREE = 0 [(label) = "free"]; TIER_PAID = 1 [(label) = "paid"]; }\n'
                             'service Bank { option (host) = "bank"; rpc Open(Account) returns (Audit) { option (audit) = { who: "x" level: 2 }; } rpc Watch(Account) returns (stream Audit); }\n',
        "rcx_misc.proto": _P3 + 'package vfrare.misc;\nimport public "rcx_shared.proto";\n;\noption java_package = "com.example";\noption optimize_for = SPEED;\n'
                          "message M { reserved 2, 15, 9 to 11, 1000 to max; reserved \"old\", \"older\"; int32 a = 1; string b = 3 [json_name = \"B_custom\"]; "
                          "repeated int32 unpacked = 4 [packed = false]; repeated sint64 packed_explicit = 5 [packed = true]; ; "
                          "vfrare.shared.Shared s = 6; map<string, vfrare.shared.Shared> sm = 7; enum E { reserved 5, 7 to 9; reserved \"GONE\"; E_ZERO = 0; E_ONE = 1; } E e = 8; "
                          "bytes last = 12 [ctype = CORD, deprecated = false]; }\n"
                          "message Max { int32 biggest = 536870911; int32 near_reserved_low = 18999; int32 near_reserved_high = 20000; }\n",
        "rcx_shared.proto": _P3 + "package vfrare.shared;\nmessage Shared { int32 n = 1; }\n",
        "rcx_user.proto": _P3 + 'package vfrare.user;\nimport "rcx_misc.proto";\nmessage U { vfrare.misc.M m = 1; vfrare.shared.Shared via_public_import = 2; vfrare.misc.M.E e = 3; }\n',
    },
    # ONE package spread over several files where only some files use typing constructs (List / Dict / Optional) and the file
    # protoc lists last uses none, or only the last one does; no service in these packages
    "split_package_typing": {
        "sp_a.proto": _P3 + "package vfsplit.p;\nmessage A { repeated int32 r = 1; map<string, int32> m = 2; }\n",
        "sp_m.proto": _P3 + 'package vfsplit.p;\nimport "sp_a.proto";\nmessage M { optional int32 o = 1; A a = 2; }\n',
        "sp_z.proto": _P3 + "package vfsplit.p;\nmessage Z { int32 x = 1; string s = 2; }\n",
        "sq_a.proto": _P3 + "package vfsplit.q;\nmessage A { int32 x = 1; }\n",
        "sq_z.proto": _P3 + 'package vfsplit.q;\nimport "sq_a.proto";\nmessage Z { repeated A r = 1; map<int32, A> m = 2; optional string o = 3; }\n',
    },
    # a type of another package that is visible only through `import public` of a file of the REFERENCING package itself
    # (the referencing file imports nothing from any other package); in the second pair the referencing package also has a
    # message of the same short name
    "public_import_same_package": {
        "pi_c.proto": _P3 + "package vfpub.c;\nmessage CMsg { int32 x = 1; message In { string s = 1; } In inner = 2; }\nenum CKind { C_KIND_ZERO = 0; C_KIND_ONE = 1; }\n",
        "pi_h_pub.proto": _P3 + 'package vfpub.h;\nimport public "pi_c.proto";\nmessage Bridge { int32 b = 1; }\n',
        "pi_h_use.proto": _P3 + 'package vfpub.h;\nimport "pi_h_pub.proto";\nmessage User { vfpub.c.CMsg c = 1; repeated vfpub.c.CMsg cs = 2; map<string, vfpub.c.CMsg> cm = 3; '
                          "oneof pick { vfpub.c.CMsg pc = 4; int32 n = 5; } optional vfpub.c.CMsg oc = 6; vfpub.c.CMsg.In ci = 7; vfpub.c.CKind ck = 8; Bridge br = 9; }\n",
        "pi_k_pub.proto": _P3 + 'package vfpub.k;\nimport public "pi_c.proto";\nmessage CMsg { string own = 1; }\n',
        "pi_k_use.proto": _P3 + 'package vfpub.k;\nimport "pi_k_pub.proto";\nmessage User { vfpub.c.CMsg theirs = 1; CMsg ours = 2; repeated vfpub.c.CMsg many = 3; }\n',
    },
    # package names that are string prefixes of each other without being parent and child
    "prefix_packages": {
        "pp_cart.proto": _P3 + 'package vfshop2.cart;\nimport "pp_cartoon.proto";\nimport "pp_cartoon_types.proto";\nmessage Cart { vfshop2.cartoon.Toon toon = 1; '
                         "vfshop2.cartoon.types.Frame frame = 2; repeated vfshop2.cartoon.Toon toons = 3; map<string, vfshop2.cartoon.types.Frame> frames = 4; vfshop2.cartoon.Style style = 5; }\n",
        "pp_cartoon.proto": _P3 + "package vfshop2.cartoon;\nmessage Toon { string name = 1; }\nenum Style { STYLE_PLAIN = 0; STYLE_BOLD = 1; }\n",
        "pp_cartoon_types.proto": _P3 + "package vfshop2.cartoon.types;\nmessage Frame { int32 n = 1; }\n",
        "pp_pkg1.proto": _P3 + 'package vfpkg1;\nimport "pp_pkg10.proto";\nmessage One { vfpkg10.Ten ten = 1; }\n',
        "pp_pkg10.proto": _P3 + "package vfpkg10;\nmessage Ten { int32 x = 1; }\n",
    },
    # user types named like names the runtime itself imports / defines
    "named_like_library": {
        "nl_types.proto": _P3 + "package vfnames;\nmessage Duration { int32 minutes = 1; string label = 2; }\nmessage Timestamp { int64 ticks = 1; }\n"
                          "message Any { string what = 1; }\nmessage Message { int32 id = 1; }\nmessage Type { int32 t = 1; }\nmessage Casing { int32 c = 1; }\n"
                          "message Holder { Duration max_duration = 1; Timestamp at = 2; repeated Any anys = 3; map<string, Message> msgs = 4; "
                          "oneof g { Type type_choice = 5; Casing casing_choice = 6; } optional Duration opt_d = 7; }\n",
    },
}


def _wide_package() -> Dict[str, str]:
    """one package whose generated module is far beyond 64 KiB: 26 messages of 40 fields (scalars, repeated, optional, a map, a
    reference to the previous message), no comments; and one message of 70 fields whose proto names are camelCase / capitals"""
    kinds = ["int32", "string", "bool", "double", "bytes", "sint64", "fixed32", "uint64"]
    out = ['syntax = "proto3";', "package vfwide.big;"]
    for m in range(26):
        fields = []
        for i in range(1, 41):
            k = kinds[(i + m) % len(kinds)]
            if i % 10 == 0:
                fields.append(f"  repeated {k} r{i} = {i};")
            elif i % 10 == 5:
                fields.append(f"  optional {k} o{i} = {i};")
            elif i == 39:
                fields.append(f"  map<string, {k}> m{i} = {i};")
            elif i == 38 and m:
                fields.append(f"  Rec{m - 1:04d} prev{i} = {i};")
            else:
                fields.append(f"  {k} f{i}_{m} = {i};")
        out.append(f"message Rec{m:04d} {{")
        out += fields
        out.append("}")
    names = ["HTTPStatus", "requestURL", "UserName", "userID", "APIKey", "isOK", "x_Y_z", "fooBarBaz", "Value", "ipV4Address"]
    out.append("message WideNames {")
    for i in range(1, 71):
        nm = names[i - 1] if i <= len(names) else f"{names[i % len(names)]}{i}"
        out.append(f"  {'string' if i % 2 else 'int32'} {nm} = {i};")
    out.append("}")
    return {"wide_big.proto": "\n".join(out) + "\n"}


EXTRA_SETS["wide_package"] = _wide_package()


def extra_names() -> List[str]:
    return sorted(EXTRA_SETS)


# feature packages that fail on the pinned tree under some option combination for a RECORDED reason (KF14): they form a
# program of their own, so that their known failure cannot mask anything about the other feature packages
FEATURES_APART = {"builtin_list_dict"}


def feature_protos(apart: bool = False) -> Dict[str, str]:
    """one tiny package per single feature: exposes imports / helpers that are only emitted when
    some OTHER feature happens to be present in the same package"""
    out = {}
    for name, body in FEATURES.items():
        if (name in FEATURES_APART) != apart:
            continue
        imports = ""
        while body.startswith("import "):
            imp, body = body.split(";", 1)
            imports += imp + ";\n"
            body = body.strip()
        out[f"feat_{name}.proto"] = f'syntax = "proto3";\npackage vf.feat.{name};\n{imports}{body}\n'
    return out


def item_protos(item: dict) -> Dict[str, str]:
    k = item["kind"]
    if k == "features":
        return feature_protos(apart=bool(item.get("apart")))
    if k == "matrix":
        return matrix_protos()
    if k == "gen":
        return gen_protos(item["seed"], **item.get("opts", {}))
    if k == "inputs":
        return inputs_protos(item["dir"])
    if k == "literal":
        return item["protos"]
    if k == "extra":
        return dict(EXTRA_SETS[item["name"]])
    raise KeyError(k)


def item_name(item: dict) -> str:
    k = item["kind"]
    if k == "gen":
        return f"gen:{item['seed']}"
    if k == "inputs":
        return f"inputs:{item['dir']}"
    if k == "extra":
        return f"extra:{item['name']}" + (":roots-on-cmdline" if item.get("cmdline") == "roots" else "")
    return k + (":apart" if item.get("apart") else "") + (":" + item["plugin_opts"] if item.get("plugin_opts") else "")


def build_item(item: dict, opts: str = "") -> Build:
    if item["kind"] == "handmade":
        # the matrix schema's descriptors / reference classes, but message and enum classes built by hand with
        # the public field API instead of the plugin's output
        from . import handmade

        # (descriptors only: these classes do not depend on the plugin, so they are available even when the plugin of the
        # tree under test cannot produce the matrix module)
        b = Build(matrix_protos(), opts)
        b.run_protoc(with_plugin=False)
        b.load_descriptors()
        handmade.install(b)
        return b
    b = Build(item_protos(item), opts or item.get("plugin_opts", ""), cmdline=item.get("cmdline", "all"))
    b.full()
    return b


def value_items(tier: str, seed: int, n_gen: int, with_inputs: bool = True) -> List[dict]:
    # the matrix schema also as generated under the other typing / dataclass options (one sampled shard each):
    # the runtime reads the classes' type hints, which look different there (X | None, list[...], pydantic)
    items: List[dict] = [{"kind": "matrix"}, {"kind": "handmade"}, {"kind": "matrix", "plugin_opts": "typing.310"},
                         {"kind": "matrix", "plugin_opts": "pydantic_dataclasses"}, {"kind": "features"},
                         {"kind": "extra", "name": "named_like_library"}, {"kind": "extra", "name": "enum_only_pkg"},
                         {"kind": "extra", "name": "deprecated_rpc_only"}, {"kind": "extra", "name": "package_cycle"},
                         {"kind": "extra", "name": "odd_map_and_nested_names"}, {"kind": "extra", "name": "twin_map_names"}]
    for i in range(n_gen):
        items.append({"kind": "gen", "seed": seed * 100003 + i, "opts": {"services": False}})
    if with_inputs:
        for d in inputs_dirs():
            if d not in INPUTS_SKIP_VALUES:
                items.append({"kind": "inputs", "dir": d})
    return items
