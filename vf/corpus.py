"""Schema corpus shared by the value-level checks: the fixed matrix schema, seeded
G-schema sets, and the repository's own tests/inputs directories (read from the tree
under test)."""
from __future__ import annotations

import os
import random
from typing import Dict, List, Optional

from . import VERIF_DIR, env
from .build import Build, BuildError
from .schema_gen import SchemaGen, render_set

# tests/inputs directories that are outside every property's quantifier (recorded in DESIGN):
#  - example: proto2-style readme example, not a test input
#  - googletypes_struct / googletypes_value: google.protobuf.Struct/Value (outside G-schema grammar)
#  - import_capitalized_package: upper-case package name (outside grammar; corpus-only known finding in C03)
INPUTS_SKIP_VALUES = {"example", "googletypes_struct", "googletypes_value", "import_capitalized_package",
                      "namespace_keywords"}


def inputs_dirs() -> List[str]:
    base = os.path.join(env.REPO, "tests", "inputs")
    out = []
    if not os.path.isdir(base):
        return out
    for d in sorted(os.listdir(base)):
        p = os.path.join(base, d)
        if os.path.isdir(p) and any(f.endswith(".proto") for f in os.listdir(p)):
            out.append(d)
    return out


def inputs_protos(d: str) -> Dict[str, str]:
    base = os.path.join(env.REPO, "tests", "inputs", d)
    return {f: open(os.path.join(base, f)).read() for f in sorted(os.listdir(base)) if f.endswith(".proto")}


def matrix_protos() -> Dict[str, str]:
    return {"matrix.proto": open(os.path.join(VERIF_DIR, "protos", "matrix.proto")).read()}


def gen_protos(seed: int, **kw) -> Dict[str, str]:
    rng = random.Random(f"schema-{seed}")
    kw.setdefault("names", "keywords")
    return render_set(SchemaGen(rng, **kw).gen_set())


def item_protos(item: dict) -> Dict[str, str]:
    k = item["kind"]
    if k == "matrix":
        return matrix_protos()
    if k == "gen":
        return gen_protos(item["seed"], **item.get("opts", {}))
    if k == "inputs":
        return inputs_protos(item["dir"])
    if k == "literal":
        return item["protos"]
    raise KeyError(k)


def item_name(item: dict) -> str:
    k = item["kind"]
    if k == "gen":
        return f"gen:{item['seed']}"
    if k == "inputs":
        return f"inputs:{item['dir']}"
    return k


def build_item(item: dict, opts: str = "") -> Build:
    b = Build(item_protos(item), opts)
    b.full()
    return b


def value_items(tier: str, seed: int, n_gen: int, with_inputs: bool = True) -> List[dict]:
    items: List[dict] = [{"kind": "matrix"}]
    for i in range(n_gen):
        items.append({"kind": "gen", "seed": seed * 100003 + i, "opts": {"services": False}})
    if with_inputs:
        for d in inputs_dirs():
            if d not in INPUTS_SKIP_VALUES:
                items.append({"kind": "inputs", "dir": d})
    return items
