"""Builds the system under test for a set of .proto files: real protoc -> the repository's
plugin (as a protoc subprocess) -> generated package, imported under a unique root; and the
reference side: FileDescriptorSet from the same protoc run -> private DescriptorPool ->
google.protobuf message classes.  Also the neutral schema model (MsgInfo / FieldInfo) that
every value-level monitor works from; it is derived from the *reference's* descriptor
classes, never from betterproto's reading of the request.
"""
from __future__ import annotations

import dataclasses
import hashlib
import importlib
import itertools
import json
import os
import shutil
import subprocess
import sys
import tempfile
from typing import Any, Dict, List, Optional, Tuple

from . import env

_GRPC_PROTO_INCLUDE = None
_counter = itertools.count()

TYPE_NAMES = {
    1: "double", 2: "float", 3: "int64", 4: "uint64", 5: "int32", 6: "fixed64", 7: "fixed32",
    8: "bool", 9: "string", 10: "group", 11: "message", 12: "bytes", 13: "uint32", 14: "enum",
    15: "sfixed32", 16: "sfixed64", 17: "sint32", 18: "sint64",
}

WRAPPERS = {
    ".google.protobuf.DoubleValue": "double", ".google.protobuf.FloatValue": "float",
    ".google.protobuf.Int64Value": "int64", ".google.protobuf.UInt64Value": "uint64",
    ".google.protobuf.Int32Value": "int32", ".google.protobuf.UInt32Value": "uint32",
    ".google.protobuf.BoolValue": "bool", ".google.protobuf.StringValue": "string",
    ".google.protobuf.BytesValue": "bytes",
}


def grpc_include() -> str:
    global _GRPC_PROTO_INCLUDE
    if _GRPC_PROTO_INCLUDE is None:
        import grpc_tools

        _GRPC_PROTO_INCLUDE = os.path.join(os.path.dirname(grpc_tools.__file__), "_proto")
    return _GRPC_PROTO_INCLUDE


@dataclasses.dataclass
class FieldInfo:
    number: int
    name: str  # proto name
    json_name: str
    kind: str  # scalar kind | "enum" | "message"
    label: str  # singular | optional | repeated | map | oneof
    group: Optional[str] = None  # real oneof name
    type_name: Optional[str] = None  # full name with leading dot for enum/message
    wkt: Optional[str] = None  # "timestamp" | "duration" | "wrapper:<kind>"
    map_key: Optional["FieldInfo"] = None
    map_value: Optional["FieldInfo"] = None

    @property
    def is_plain_message(self) -> bool:
        return self.kind == "message" and self.wkt is None

    def cls_key(self) -> str:
        """kind/label descriptor used in mechanism signatures"""
        if self.label == "map" and self.map_key is not None and self.map_value is not None:
            return f"map<{self.map_key.kind},{self.map_value.wkt or self.map_value.kind}>"
        k = self.wkt or self.kind
        return f"{k}/{self.label}"


@dataclasses.dataclass
class EnumInfo:
    full_name: str  # leading dot
    values: List[Tuple[str, int]]
    allow_alias: bool = False

    @property
    def numbers(self) -> List[int]:
        return [n for _, n in self.values]


@dataclasses.dataclass
class MsgInfo:
    full_name: str  # leading dot
    package: str
    path: Tuple[str, ...]  # nesting path of simple names, e.g. ("Outer", "Inner")
    fields: List[FieldInfo]
    oneofs: Dict[str, List[int]]  # real oneof -> member numbers (declaration order)
    file: str = ""

    def field(self, number: int) -> FieldInfo:
        for f in self.fields:
            if f.number == number:
                return f
        raise KeyError(number)


@dataclasses.dataclass
class MethodInfo:
    name: str
    input_type: str
    output_type: str
    client_streaming: bool
    server_streaming: bool


@dataclasses.dataclass
class ServiceInfo:
    full_name: str
    name: str
    package: str
    methods: List[MethodInfo]


class BuildError(Exception):
    def __init__(self, stage: str, detail: str):
        super().__init__(f"{stage}: {detail}")
        self.stage = stage
        self.detail = detail


class Build:
    """One protoc+plugin run and everything derived from it."""

    def __init__(self, protos: Dict[str, str], opts: str = "", keep: bool = False, extra_includes=(), cmdline: str = "all"):
        self.protos = dict(protos)
        self.opts = opts
        self.cmdline = cmdline  # "all": every file named on the protoc command line; "roots": only files no other file imports
        h = hashlib.sha256(json.dumps([sorted(protos.items()), opts]).encode()).hexdigest()[:10]
        self.root_pkg = f"vfg_{h}_{os.getpid()}_{next(_counter)}"
        os.makedirs(env.WORK, exist_ok=True)
        self.dir = tempfile.mkdtemp(prefix="b_", dir=env.WORK)
        self.src = os.path.join(self.dir, "src")
        self.gen = os.path.join(self.dir, "gen")
        self.out = os.path.join(self.gen, self.root_pkg)
        self.fds_path = os.path.join(self.dir, "fds.bin")
        self.plugin_log = os.path.join(self.dir, "plugin.log")
        self.stderr = ""
        self.protoc_rc: Optional[int] = None
        self.extra_includes = list(extra_includes)
        self._modules: Dict[str, Any] = {}
        self.msgs: Dict[str, MsgInfo] = {}
        self.enums: Dict[str, EnumInfo] = {}
        self.services: List[ServiceInfo] = []
        self.fds = None
        self.pool = None
        self._ref_cls: Dict[str, Any] = {}
        self._bp_cls: Dict[str, Any] = {}
        self._imported = False

    # -- protoc -------------------------------------------------------------
    def run_protoc(self, with_plugin: bool = True, timeout: int = 120) -> None:
        os.makedirs(self.src, exist_ok=True)
        os.makedirs(self.out, exist_ok=True)
        for name, text in self.protos.items():
            p = os.path.join(self.src, name)
            os.makedirs(os.path.dirname(p), exist_ok=True)
            with open(p, "w") as fh:
                fh.write(text)
        cmd = [sys.executable, "-W", "ignore", "-m", "grpc_tools.protoc", f"-I{self.src}"]
        for inc in self.extra_includes:
            cmd.append(f"-I{inc}")
        cmd.append(f"-I{grpc_include()}")
        if with_plugin:
            cmd.append(f"--python_betterproto_out={self.out}")
            if self.opts:
                cmd.append(f"--python_betterproto_opt={self.opts}")
        cmd += ["--include_imports", "--include_source_info", f"--descriptor_set_out={self.fds_path}"]
        names = sorted(self.protos)
        if self.cmdline == "roots" and with_plugin:
            import re as _re

            imported = {m for t in self.protos.values() for m in _re.findall(r'import\s+(?:public\s+)?"([^"]+)"', t)}
            roots = [n for n in names if n not in imported]
            names = roots or names
        cmd += names
        e = env.child_env({"VERIF_PLUGIN_LOG": self.plugin_log})
        try:
            r = subprocess.run(cmd, capture_output=True, text=True, env=e, cwd=self.dir, timeout=timeout)
        except subprocess.TimeoutExpired:
            raise BuildError("protoc-timeout", "protoc/plugin did not finish")
        self.protoc_rc = r.returncode
        self.stderr = r.stderr
        if r.returncode != 0:
            stage = "plugin" if ("python_betterproto" in r.stderr or "Traceback" in r.stderr) else "protoc"
            raise BuildError(stage, r.stderr[-3000:])

    def protoc_accepts(self) -> Tuple[bool, str]:
        """Does protoc itself (no plugin) accept the schema?  Distinguishes generator bugs
        from plugin failures."""
        b = Build(self.protos, keep=False, extra_includes=self.extra_includes)
        try:
            b.run_protoc(with_plugin=False)
            return True, ""
        except BuildError as e:
            return False, e.detail
        finally:
            b.cleanup()

    # -- reference side -----------------------------------------------------
    def load_descriptors(self) -> None:
        from google.protobuf import descriptor_pb2, descriptor_pool

        with open(self.fds_path, "rb") as fh:
            data = fh.read()
        self.fds = descriptor_pb2.FileDescriptorSet.FromString(data)
        self.pool = descriptor_pool.DescriptorPool()
        for f in self.fds.file:
            self.pool.Add(f)
        for f in self.fds.file:
            if f.name.startswith("google/protobuf/"):
                # still model them (targets of references) but mark the file
                pass
            self._model_file(f)

    def _model_file(self, f) -> None:
        pkg = f.package

        def walk_enum(e, prefix_path):
            full = "." + ".".join(([pkg] if pkg else []) + list(prefix_path) + [e.name])
            self.enums[full] = EnumInfo(full, [(v.name, v.number) for v in e.value], e.options.allow_alias)

        def walk_msg(m, prefix_path):
            path = tuple(prefix_path) + (m.name,)
            full = "." + ".".join(([pkg] if pkg else []) + list(path))
            for e in m.enum_type:
                walk_enum(e, path)
            for n in m.nested_type:
                walk_msg(n, path)
            if m.options.map_entry:
                return
            entries = {"." + ".".join(([pkg] if pkg else []) + list(path) + [n.name]): n
                       for n in m.nested_type if n.options.map_entry}
            fields: List[FieldInfo] = []
            oneofs: Dict[str, List[int]] = {}
            for fd in m.field:
                fields.append(self._model_field(fd, m, entries, oneofs))
            self.msgs[full] = MsgInfo(full, pkg, path, fields, oneofs, f.name)

        for e in f.enum_type:
            walk_enum(e, ())
        for m in f.message_type:
            walk_msg(m, ())
        for s in f.service:
            self.services.append(ServiceInfo(
                "." + ".".join(([pkg] if pkg else []) + [s.name]), s.name, pkg,
                [MethodInfo(md.name, md.input_type, md.output_type, md.client_streaming, md.server_streaming)
                 for md in s.method]))

    def _model_field(self, fd, parent, entries, oneofs) -> FieldInfo:
        kind = TYPE_NAMES[fd.type]
        fi = FieldInfo(fd.number, fd.name, fd.json_name, kind, "singular")
        if kind in ("message", "enum"):
            fi.type_name = fd.type_name
        if kind == "message":
            if fd.type_name == ".google.protobuf.Timestamp":
                fi.wkt = "timestamp"
            elif fd.type_name == ".google.protobuf.Duration":
                fi.wkt = "duration"
            elif fd.type_name in WRAPPERS:
                fi.wkt = "wrapper:" + WRAPPERS[fd.type_name]
        if fd.label == 3:  # LABEL_REPEATED
            if kind == "message" and fd.type_name in entries:
                ent = entries[fd.type_name]
                fi.label = "map"
                fi.map_key = self._model_field(ent.field[0], ent, {}, {})
                fi.map_value = self._model_field(ent.field[1], ent, {}, {})
            else:
                fi.label = "repeated"
        elif fd.proto3_optional:
            fi.label = "optional"
        elif fd.HasField("oneof_index"):
            fi.label = "oneof"
            fi.group = parent.oneof_decl[fd.oneof_index].name
            oneofs.setdefault(fi.group, []).append(fd.number)
        return fi

    def ref_class(self, full_name: str):
        c = self._ref_cls.get(full_name)
        if c is None:
            from google.protobuf import message_factory

            c = message_factory.GetMessageClass(self.pool.FindMessageTypeByName(full_name.lstrip(".")))
            self._ref_cls[full_name] = c
        return c

    # -- SUT side -----------------------------------------------------------
    def user_packages(self) -> List[str]:
        pk = []
        for f in self.fds.file:
            if f.name.startswith("google/protobuf/"):
                continue
            if f.package not in pk:
                pk.append(f.package)
        return pk

    def module_name(self, package: str) -> str:
        return self.root_pkg + ("." + package if package else "")

    def import_all(self) -> None:
        """Import every generated package (order: as listed).  Raises BuildError('import')."""
        if self._imported:
            return
        if self.gen not in sys.path:
            sys.path.insert(0, self.gen)
        importlib.invalidate_caches()
        for pkg in self.user_packages():
            name = self.module_name(pkg)
            try:
                self._modules[pkg] = importlib.import_module(name)
            except BaseException as e:  # SyntaxError, NameError, ImportError ...
                if isinstance(e, (KeyboardInterrupt, SystemExit)):
                    raise
                import traceback

                raise BuildError("import", f"{name}: {type(e).__name__}: {e}\n" + traceback.format_exc()[-1500:])
        self._imported = True

    def import_each_first(self) -> List[tuple]:
        """every generated package imported FIRST in a fresh interpreter (import order must not matter, also when packages
        refer to each other circularly).  Returns [(package, error text)] for those that fail."""
        import subprocess

        from . import env

        bad = []
        for pkg in self.user_packages():
            name = self.module_name(pkg)
            code = f"import sys; sys.path.insert(0, {self.gen!r}); import importlib; importlib.import_module({name!r})"
            try:
                r = subprocess.run([sys.executable, "-W", "ignore", "-c", code], capture_output=True, text=True, timeout=120, env=env.child_env())
            except subprocess.TimeoutExpired:
                bad.append((pkg, "timeout"))
                continue
            if r.returncode != 0:
                bad.append((pkg, (r.stderr or r.stdout)[-700:]))
        return bad

    def module(self, package: str):
        self.import_all()
        return self._modules[package]

    def bp_class(self, full_name: str):
        """The betterproto class generated for a message (by flattened name, compared
        case-/underscore-insensitively; structural fallback on field numbers)."""
        c = self._bp_cls.get(full_name)
        if c is not None:
            return c
        import betterproto

        if full_name.startswith(".google.protobuf."):
            g = self._wkt_lib()
            c = getattr(g, "".join(full_name[len(".google.protobuf."):].split(".")))
            self._bp_cls[full_name] = c
            return c
        mi = self.msgs[full_name]
        mod = self.module(mi.package)
        want = "".join(mi.path).replace("_", "").lower()
        cands = []
        for nm, obj in list(vars(mod).items()):
            if isinstance(obj, type) and issubclass(obj, betterproto.Message) and obj.__module__ == mod.__name__:
                if nm.replace("_", "").lower() == want:
                    cands.append(obj)
        if len(cands) > 1:
            nums = sorted(f.number for f in mi.fields)
            cands = [c for c in cands if sorted(
                dataclasses.fields(c)[i].metadata["betterproto"].number for i in range(len(dataclasses.fields(c)))) == nums] or cands
        if not cands:
            raise BuildError("class-missing", f"no betterproto class for {full_name} in {mod.__name__}")
        self._bp_cls[full_name] = cands[0]
        return cands[0]

    def _wkt_lib(self):
        """the bundled google.protobuf classes the generated code of THIS build refers to (the pydantic flavour has its own)"""
        import importlib

        if "pydantic_dataclasses" in (self.opts or ""):
            return importlib.import_module("betterproto.lib.pydantic.google.protobuf")
        return importlib.import_module("betterproto.lib.google.protobuf")

    def bp_enum(self, full_name: str):
        import betterproto

        ov = getattr(self, "_enum_override", None)
        if ov and full_name in ov:
            return ov[full_name]

        if full_name.startswith(".google.protobuf."):
            return getattr(self._wkt_lib(), "".join(full_name[len(".google.protobuf."):].split(".")))
        pkg, path = self._split_enum(full_name)
        mod = self.module(pkg)
        want = "".join(path).replace("_", "").lower()
        for nm, obj in list(vars(mod).items()):
            if isinstance(obj, type) and issubclass(obj, betterproto.Enum) and obj.__module__ == mod.__name__:
                if nm.replace("_", "").lower() == want:
                    return obj
        raise BuildError("class-missing", f"no betterproto enum for {full_name}")

    def _split_enum(self, full_name: str) -> Tuple[str, Tuple[str, ...]]:
        # longest package prefix among user packages
        parts = full_name.lstrip(".").split(".")
        best = ""
        for pkg in self.user_packages():
            pp = pkg.split(".") if pkg else []
            if parts[: len(pp)] == pp and len(pkg) >= len(best):
                # make sure the remainder names a known type chain
                best = pkg
        rest = parts[len(best.split(".")) if best else 0:]
        return best, tuple(rest)

    def plugin_events(self) -> List[dict]:
        out = []
        try:
            with open(self.plugin_log) as fh:
                for line in fh:
                    try:
                        out.append(json.loads(line))
                    except Exception:
                        pass
        except FileNotFoundError:
            pass
        return out

    def plugin_reach(self) -> List[str]:
        out = set()
        for ev in self.plugin_events():
            if ev.get("ev") == "reach":
                out.update(ev.get("functions", []))
        return sorted(out)

    def user_messages(self) -> List[MsgInfo]:
        return [m for m in self.msgs.values() if not m.full_name.startswith(".google.protobuf.")]

    def generated_files(self) -> Dict[str, str]:
        out = {}
        for dp, _, fns in os.walk(self.out):
            for fn in fns:
                p = os.path.join(dp, fn)
                try:
                    out[os.path.relpath(p, self.out)] = open(p).read()
                except Exception:
                    pass
        return out

    def cleanup(self) -> None:
        for k in [k for k in sys.modules if k == self.root_pkg or k.startswith(self.root_pkg + ".")]:
            del sys.modules[k]
        if getattr(self, "handmade_module", None):
            sys.modules.pop(self.handmade_module, None)
        if self.gen in sys.path:
            sys.path.remove(self.gen)
        shutil.rmtree(self.dir, ignore_errors=True)

    # convenience
    def full(self) -> "Build":
        self.run_protoc()
        self.load_descriptors()
        self.import_all()
        return self


def build(protos: Dict[str, str], opts: str = "", extra_includes=()) -> Build:
    return Build(protos, opts, extra_includes=extra_includes).full()
