"""Entry point protoc uses for --python_betterproto_out: installs observation-only monitors
inside the plugin process, then runs the repository's own plugin main().

Monitors never raise into the plugin: they append JSON lines to $VERIF_PLUGIN_LOG.
"""
from __future__ import annotations

import functools
import json
import keyword
import os
import sys


def _install(log_path: str) -> None:
    events = []

    def emit(ev):
        events.append(ev)

    try:
        import betterproto.plugin.models as models
        import betterproto.compile.importing as importing
    except Exception as e:  # the plugin itself will fail the same way in main()
        return

    def wrap_ref(fn):
        @functools.wraps(fn)
        def inner(*a, **kw):
            r = fn(*a, **kw)
            try:
                emit({"ev": "typeref", "package": kw.get("package"), "source_type": kw.get("source_type"),
                      "unwrap": kw.get("unwrap", True), "pydantic": kw.get("pydantic", False), "result": r})
            except Exception:
                pass
            return r
        return inner

    if hasattr(importing, "get_type_reference"):
        w = wrap_ref(importing.get_type_reference)
        importing.get_type_reference = w
        if hasattr(models, "get_type_reference"):
            models.get_type_reference = w

    def wrap_name(kind, fn):
        @functools.wraps(fn)
        def inner(*a, **kw):
            r = fn(*a, **kw)
            try:
                ok = isinstance(r, str) and r.isidentifier() and not keyword.iskeyword(r)
                emit({"ev": "name", "kind": kind, "args": list(a), "result": r, "ok": ok})
            except Exception:
                pass
            return r
        return inner

    for nm in ("pythonize_class_name", "pythonize_field_name", "pythonize_method_name", "pythonize_enum_member_name"):
        if hasattr(models, nm):
            setattr(models, nm, wrap_name(nm, getattr(models, nm)))

    # reach monitor inside the plugin process (functions of the tree under test that were entered)
    reached = set()
    try:
        mon = sys.monitoring
        tool = mon.COVERAGE_ID
        mon.use_tool_id(tool, "vf-plugin-reach")
        import betterproto as _bp

        prefix = os.path.dirname(os.path.dirname(os.path.realpath(_bp.__file__))) + os.sep

        def on_start(code, offset):
            fn = code.co_filename
            if fn.startswith(prefix):
                reached.add(fn[len(prefix):] + ":" + code.co_qualname)
            return mon.DISABLE

        mon.register_callback(tool, mon.events.PY_START, on_start)
        mon.set_events(tool, mon.events.PY_START)
    except Exception:
        pass

    import atexit

    def flush():
        events.append({"ev": "reach", "functions": sorted(reached)})
        try:
            with open(log_path, "a") as fh:
                for ev in events:
                    fh.write(json.dumps(ev) + "\n")
        except Exception:
            pass

    atexit.register(flush)


def main() -> None:
    log_path = os.environ.get("VERIF_PLUGIN_LOG")
    if log_path:
        _install(log_path)
    from betterproto.plugin.main import main as real_main

    real_main()


if __name__ == "__main__":
    main()
