"""Shared driver for the value-level checks: builds one corpus item, walks matrix / random /
maximal value trees of every message type and hands each case to the check's oracle."""
from __future__ import annotations

import random
import traceback
from typing import Callable, Iterator, List, Optional, Tuple

from . import corpus, monitors
from .build import Build, BuildError, MsgInfo
from .core import Result
from .values import BP, REF, Gen, tree_from_json, tree_to_json, canon


def plan_items(tier: str, seed: int, *, n_gen_quick: int, n_gen_thorough: int, n_quick: int, n_thorough: int,
               with_inputs: bool = True) -> List[dict]:
    # thorough: bounded so that a property's thorough tier stays around 10-15 minutes on 16 cores
    n_gen = n_gen_quick if tier == "quick" else min(n_gen_thorough, 96)
    items = corpus.value_items(tier, seed, n_gen, with_inputs)
    n = n_quick if tier == "quick" else n_thorough
    shards = []
    for i, it in enumerate(items):
        if it["kind"] in ("matrix", "handmade") and not it.get("plugin_opts"):
            reps = 1 if tier == "quick" else 4
            parts = 12
            for r in range(reps):
                for pi in range(parts):
                    shards.append({"item": it, "seed": seed * 7919 + i * 31 + r, "n": n * 3 // parts * 4,
                                   "matrix": "full" if r == 0 else "none", "part": [pi, parts],
                                   "time_cap": 40 if tier == "quick" else 100})
        elif it["kind"] == "gen":
            shards.append({"item": it, "seed": seed * 7919 + i, "n": n, "matrix": "sample",
                           "time_cap": 40 if tier == "quick" else 100})
        else:
            shards.append({"item": it, "seed": seed * 7919 + i, "n": max(20, n // 4), "matrix": "sample",
                           "time_cap": 40 if tier == "quick" else 100})
    # order: the same kind of cases, but in a process that has first seen several hundred decodes FAIL inside nested
    # messages (and one absurdly deep message): whatever a failed decode leaves behind must not reach a later one
    shards.append({"item": {"kind": "matrix"}, "seed": seed * 7919 + 4000, "n": n, "matrix": "sample", "after_failures": 330,
                   "time_cap": 40 if tier == "quick" else 100})
    # quantity and size: the matrix schema with ONE field per case far beyond the sizes of the other shapes
    for r in range(2 if tier == "quick" else 8):
        shards.append({"item": {"kind": "matrix"}, "seed": seed * 7919 + 5000 + r, "n": 0, "matrix": "none", "large": True,
                       "part": [r, 2 if tier == "quick" else 8], "time_cap": 45 if tier == "quick" else 150})
    # (and on the hand-built classes, which exist even when the plugin of the tree under test cannot emit the matrix module)
    shards.append({"item": {"kind": "handmade"}, "seed": seed * 7919 + 5100, "n": 0, "matrix": "none", "large": True,
                   "part": [0, 2], "time_cap": 45 if tier == "quick" else 150})
    return shards


def iter_cases(b: Build, shard: dict, rng) -> Iterator[Tuple[MsgInfo, dict, str]]:
    msgs = b.user_messages()
    if not msgs:
        return
    if shard.get("large"):
        g = Gen(b, rng, max_depth=2)
        part = shard.get("part") or [0, 1]
        per_msg = []
        for k, mi in enumerate(msgs):
            per_msg.append([(mi, tree, tag) for tag, tree in g.big(mi, budget=24)])
        # interleave the messages so that a time cap does not starve the later ones
        i = 0
        while any(per_msg):
            for lst in per_msg:
                if lst:
                    mi, tree, tag = lst.pop()
                    if i % part[1] == part[0]:
                        yield mi, tree, tag
                    i += 1
        return
    g = Gen(b, rng)
    per = max(2, shard["n"] // len(msgs))
    part = shard.get("part")
    for k, mi in enumerate(msgs):
        if shard.get("only_msg") and mi.full_name != shard["only_msg"]:
            continue
        if part and k % part[1] != part[0]:
            continue
        yield mi, {}, "empty"
        if shard["matrix"] == "full":
            for fi, lab, tree in g.matrix(mi):
                yield mi, tree, f"matrix:{fi.cls_key()}:{lab}"
        elif shard["matrix"] == "sample":
            cells = list(g.matrix(mi))
            rng.shuffle(cells)
            for fi, lab, tree in cells[: max(4, per // 2)]:
                yield mi, tree, f"matrix:{fi.cls_key()}:{lab}"
        yield mi, g.tree(mi, 0, "maximal"), "maximal"
        for _ in range(per):
            yield mi, g.tree(mi, 0, "random"), "random"


def witness(shard_or_item, mi: MsgInfo, tree: dict, **extra) -> dict:
    item = shard_or_item["item"] if "item" in shard_or_item else shard_or_item
    w = {"item": item, "msg": mi.full_name, "tree": tree_to_json(tree)}
    w.update(extra)
    return w


def run_value_shard(shard: dict, prop: str, check_case: Callable, contracts: List[str],
                    distinct_key: Optional[Callable] = None) -> Result:
    res = Result()
    rng = random.Random(f"values-{shard['seed']}")
    try:
        b = corpus.build_item(shard["item"])
    except BuildError as e:
        res.inconclusive.append(f"SUT could not be built for {corpus.item_name(shard['item'])}: {e.stage}: {e.detail[-600:]}")
        return res
    try:
        monitors.install(contracts)
        bp, ref = BP(b), REF(b)
        name = corpus.item_name(shard["item"])
        import time as _time

        if shard.get("after_failures"):
            _failing_decodes(b, ref, rng, shard["after_failures"], res)

        t_end = _time.time() + shard.get("time_cap", 40)
        for mi, tree, tag in iter_cases(b, shard, rng):
            if _time.time() > t_end:
                res.note("cases-skipped-by-time-cap")
                continue
            w = witness(shard, mi, tree, tag=tag.split(":")[0])
            monitors.set_context(w)
            res.case(f"{name}|{mi.full_name}|{_tkey(tree)}")
            res.note("cases:" + tag.split(":")[0])
            try:
                check_case(b, bp, ref, mi, tree, res, w, rng)
            except Exception as e:
                res.inconclusive.append(f"oracle crashed on {name} {mi.full_name}: {type(e).__name__}: {e}\n{traceback.format_exc()[-1200:]}")
                break
            if tag != "empty" and len(res.samples) < 2 and tree:
                res.sample({"schema": name, "message": mi.full_name, "tree": _short_tree(tree), "shape": tag})
        monitors.set_context(None)
        monitors.drain(res, prop)
    finally:
        b.cleanup()
    return res


def _poison(b: Build, mi: MsgInfo, data: bytes, rng, depth: int = 0):
    """a copy of the valid encoding `data` whose outer framing is intact but which ends, up to three levels down inside a
    nested message, in a tag without a value; None if the message has no nested message on the wire"""
    from . import spec

    try:
        recs = spec.read_records(data)
    except Exception:
        return None
    fields = {f.number: f for f in mi.fields}
    nested = [i for i, r in enumerate(recs) if r.wt == spec.WT_LEN and r.number in fields and fields[r.number].kind == "message"
              and fields[r.number].wkt is None and fields[r.number].label in ("singular", "optional", "oneof", "repeated")]
    if not nested:
        return data + b"\x08" if depth else None
    i = rng.choice(nested)
    r = recs[i]
    sub = b.msgs[fields[r.number].type_name]
    inner = _poison(b, sub, r.value, rng, depth + 1) if depth < 2 else None
    if inner is None:
        inner = r.value + b"\x08"
    raws = [x.raw for x in recs]
    raws[i] = spec.enc_record(r.number, spec.WT_LEN, inner)
    return b"".join(raws)


def _failing_decodes(b: Build, ref, rng, n: int, res: Result) -> None:
    g = Gen(b, rng, max_depth=3)
    msgs = [mi for mi in b.user_messages() if any(f.kind == "message" and f.wkt is None for f in mi.fields)]
    done = raised = 0
    for k in range(n * 3):
        if done >= n or not msgs:
            break
        mi = msgs[k % len(msgs)]
        try:
            data = ref.make(mi, g.tree(mi, 0, "maximal" if k % 2 else "random")).SerializeToString()
        except Exception:
            continue
        bad = _poison(b, mi, data, rng)
        if bad is None:
            continue
        done += 1
        try:
            b.bp_class(mi.full_name)().parse(bad)
        except Exception:
            raised += 1
    # one message nested far deeper than any real one (accepted or rejected, either is fine here)
    rec = next((mi for mi in b.user_messages() for f in mi.fields if f.kind == "message" and f.type_name == mi.full_name and f.label == "singular"), None)
    if rec is not None:
        from . import spec

        f = next(f for f in rec.fields if f.kind == "message" and f.type_name == rec.full_name and f.label == "singular")
        data = b""
        for _ in range(400):
            data = spec.enc_record(f.number, spec.WT_LEN, data)
        try:
            b.bp_class(rec.full_name)().parse(data)
        except BaseException:
            raised += 1
    res.counters["failed_decodes_first"] += done
    res.counters["failed_decodes_first_raised"] += raised


def replay_value(w: dict, check_case: Callable, prop: str, contracts: List[str]) -> List[dict]:
    res = Result()
    b = corpus.build_item(w["item"])
    try:
        monitors.install(contracts)
        mi = b.msgs[w["msg"]]
        tree = tree_from_json(w["tree"])
        monitors.set_context(w)
        check_case(b, BP(b), REF(b), mi, tree, res, w, random.Random(w.get("rng", 0)))
        monitors.drain(res, prop)
    finally:
        b.cleanup()
    return res.violations


def _tkey(tree) -> str:
    import hashlib

    return hashlib.sha1(repr(tree_to_json(tree)).encode()).hexdigest()[:16]


def _short_tree(tree, n=300):
    s = repr(tree)
    return s if len(s) <= n else s[:n] + "..."


def single_field_subtrees(b: Build, mi: MsgInfo, tree: dict):
    """projection of a tree on each of its top-level fields (cheap delta-debugging step)"""
    for fi in mi.fields:
        if fi.number in tree:
            yield fi, {fi.number: tree[fi.number]}
