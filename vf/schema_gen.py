"""G-schema: seeded grammar-based generator of proto3 schema sets (structured IR -> text),
with an 'evolve' pass (older version = random subset of fields deleted) for C08.

Deliberately outside the grammar (design-level clashes the property texts do not quantify
over, see DESIGN 3.3): field names equal to Message API names, nested-name flattening
collisions (A.B next to AB), upper-case package names, lower-case *nested* message names,
google.protobuf.Struct/Value, comments containing triple quotes.
"""
from __future__ import annotations

import copy
import dataclasses
from typing import Dict, List, Optional, Tuple

SCALARS = ["double", "float", "int32", "int64", "uint32", "uint64", "sint32", "sint64",
           "fixed32", "fixed64", "sfixed32", "sfixed64", "bool", "string", "bytes"]
MAP_KEYS = ["int32", "int64", "uint32", "uint64", "sint32", "sint64", "fixed32", "fixed64",
            "sfixed32", "sfixed64", "bool", "string"]
WRAPPER_TYPES = ["DoubleValue", "FloatValue", "Int64Value", "UInt64Value", "Int32Value", "UInt32Value",
                 "BoolValue", "StringValue", "BytesValue"]

SAFE_FIELD_NAMES = ["id_", "name", "value", "count", "flag", "data", "items", "total", "kind", "label",
                    "alpha", "beta", "gamma", "delta", "first_name", "last_seen", "is_ok", "payload",
                    "created", "amount", "ratio", "tags", "attrs", "child", "parent", "left", "right",
                    "status", "code", "detail", "extra_info", "user_name", "zone", "weight", "height"]
SAFE_FIELD_NAMES = [n.rstrip("_") if n != "id_" else "ident" for n in SAFE_FIELD_NAMES]
KEYWORD_FIELD_NAMES = ["class", "from", "lambda", "def", "in", "is", "not", "or", "and", "for", "while",
                       "import", "global", "pass", "return", "yield", "async", "await", "try", "del",
                       "with", "as", "if", "else", "elif", "raise", "assert", "break", "continue",
                       "except", "finally", "nonlocal"]
# builtins that are not type names (harmless as field names)
BUILTIN_FIELD_NAMES = ["id", "input", "len", "map", "filter", "print", "hash", "max", "min", "sum", "next", "iter", "open", "vars"]
# builtin *type* names: a field named like this shadows the type for later annotations of the class body; the
# plugin's builtins.<type> workaround has holes (KF14/KF15), so these are only used where those findings are
# registered (names="hostile": C03, part of C18)
TYPE_BUILTIN_FIELD_NAMES = ["list", "type", "int", "bytes", "str", "float", "bool", "dict", "set", "object"]
DIGIT_FIELD_NAMES = ["address_line_1", "ipv4_address", "x_y_z", "field2", "a1_b2", "line_2_text", "v_2"]
CAMEL_FIELD_NAMES = ["fooBar", "HTTPStatus", "camelCaseName", "Mixed_Case", "UPPER_NAME", "aB"]

MSG_NAMES = ["Foo", "Bar", "Baz", "Item", "Node", "Tree", "Leaf", "Config", "Event", "Record", "Entry2",
             "Point", "Shape", "User", "Order", "Line", "Batch", "Frame", "Packet", "Header"]
HOSTILE_MSG_NAMES = ["HTTPStatus", "XMLDoc", "Msg2", "A", "IOError2", "DB"]
ONEOF_NAMES = ["fooBar", "foo_bar", "Variant", "class", "_lead", "oneOf2", "KIND", "type_of", "in"]
ENUM_NAMES = ["Color", "Kind", "Mode", "Level", "State", "Phase", "Unit", "Tier"]
ENUM_VALUE_WORDS = ["RED", "GREEN", "BLUE", "ON", "OFF", "LOW", "HIGH", "MID", "OPEN", "CLOSED", "A", "B", "C"]
PKG_WORDS = ["alpha", "beta", "gamma", "v1", "core", "api"]
SVC_NAMES = ["Greeter", "Store", "Router", "HTTPService", "Echo"]
METHOD_NAMES = ["Get", "Put", "ListItems", "GetHTTPStatus", "do_thing", "Watch", "StreamAll", "Sync2", "UPDATE"]


@dataclasses.dataclass
class FieldIR:
    name: str
    number: int
    type: str  # as written in the .proto (scalars bare, types fully qualified with leading dot)
    label: str = ""  # "" | optional | repeated
    map_key: Optional[str] = None
    oneof: Optional[str] = None
    comment: str = ""
    trailing: str = ""


@dataclasses.dataclass
class EnumIR:
    name: str
    values: List[Tuple[str, int]]
    allow_alias: bool = False
    comment: str = ""


@dataclasses.dataclass
class MsgIR:
    name: str
    fields: List[FieldIR] = dataclasses.field(default_factory=list)
    msgs: List["MsgIR"] = dataclasses.field(default_factory=list)
    enums: List[EnumIR] = dataclasses.field(default_factory=list)
    comment: str = ""


@dataclasses.dataclass
class MethodIR:
    name: str
    input: str
    output: str
    cs: bool
    ss: bool
    comment: str = ""


@dataclasses.dataclass
class SvcIR:
    name: str
    methods: List[MethodIR]
    comment: str = ""


@dataclasses.dataclass
class FileIR:
    name: str
    package: str
    imports: List[str] = dataclasses.field(default_factory=list)
    enums: List[EnumIR] = dataclasses.field(default_factory=list)
    msgs: List[MsgIR] = dataclasses.field(default_factory=list)
    services: List[SvcIR] = dataclasses.field(default_factory=list)


def render(f: FileIR) -> str:
    out = ['syntax = "proto3";']
    if f.package:
        out.append(f"package {f.package};")
    for i in f.imports:
        out.append(f'import "{i}";')
    out.append("")

    def cm(c, ind):
        return [ind + "// " + l for l in c.split("\n")] if c else []

    def r_enum(e: EnumIR, ind: str):
        out.extend(cm(e.comment, ind))
        out.append(f"{ind}enum {e.name} {{")
        if e.allow_alias:
            out.append(f"{ind}  option allow_alias = true;")
        for n, v in e.values:
            out.append(f"{ind}  {n} = {v};")
        out.append(f"{ind}}}")

    def r_field(fl: FieldIR, ind: str):
        out.extend(cm(fl.comment, ind))
        if fl.map_key:
            t = f"map<{fl.map_key}, {fl.type}>"
        else:
            t = (fl.label + " " if fl.label else "") + fl.type
        tr = f"  // {fl.trailing}" if fl.trailing else ""
        out.append(f"{ind}{t} {fl.name} = {fl.number};{tr}")

    def r_msg(m: MsgIR, ind: str):
        out.extend(cm(m.comment, ind))
        out.append(f"{ind}message {m.name} {{")
        for e in m.enums:
            r_enum(e, ind + "  ")
        for n in m.msgs:
            r_msg(n, ind + "  ")
        done = set()
        for fl in m.fields:
            if fl.oneof:
                if fl.oneof in done:
                    continue
                done.add(fl.oneof)
                out.append(f"{ind}  oneof {fl.oneof} {{")
                for g in m.fields:
                    if g.oneof == fl.oneof:
                        r_field(g, ind + "    ")
                out.append(f"{ind}  }}")
            else:
                r_field(fl, ind + "  ")
        out.append(f"{ind}}}")

    for e in f.enums:
        r_enum(e, "")
        out.append("")
    for m in f.msgs:
        r_msg(m, "")
        out.append("")
    for s in f.services:
        out.extend(cm(s.comment, ""))
        out.append(f"service {s.name} {{")
        for md in s.methods:
            out.extend(cm(md.comment, "  "))
            out.append(f"  rpc {md.name}({'stream ' if md.cs else ''}{md.input}) returns ({'stream ' if md.ss else ''}{md.output});")
        out.append("}")
        out.append("")
    return "\n".join(out) + "\n"


class SchemaGen:
    def __init__(self, rng, *, names: str = "safe", services: bool = True, wkt_plain: bool = False,
                 max_files: int = 3, max_msgs: int = 5, max_fields: int = 10, comments: bool = True,
                 enum_prefix_names: bool = True, recursion: bool = True, big_numbers: bool = True,
                 hostile_comments: bool = False):
        self.rng = rng
        self.names = names
        self.services = services
        self.wkt_plain = wkt_plain
        self.max_files = max_files
        self.max_msgs = max_msgs
        self.max_fields = max_fields
        self.comments = comments
        self.enum_prefix_names = enum_prefix_names
        self.recursion = recursion
        self.big_numbers = big_numbers
        self.hostile_comments = hostile_comments
        self._uid = 0

    def uid(self) -> int:
        self._uid += 1
        return self._uid

    # -- names ------------------------------------------------------------
    def field_name(self, used: set) -> str:
        rng = self.rng
        pools = [SAFE_FIELD_NAMES] * 6
        if self.names in ("keywords", "hostile"):
            pools += [KEYWORD_FIELD_NAMES] * 2 + [BUILTIN_FIELD_NAMES] * 2
        if self.names == "hostile":
            pools += [DIGIT_FIELD_NAMES, CAMEL_FIELD_NAMES, TYPE_BUILTIN_FIELD_NAMES, TYPE_BUILTIN_FIELD_NAMES]
        for _ in range(50):
            n = rng.choice(rng.choice(pools))
            key = n.replace("_", "").lower()
            if key not in used:
                used.add(key)
                return n
        n = f"f{self.uid()}x"
        used.add(n)
        return n

    def number(self, used: set) -> int:
        rng = self.rng
        for _ in range(100):
            r = rng.random()
            if r < 0.6:
                n = rng.randint(1, 15)
            elif r < 0.85:
                n = rng.randint(16, 2047)
            elif r < 0.95 or not self.big_numbers:
                n = rng.randint(2048, 18999)
            else:
                n = rng.choice([20000, 65536, 2**21, 2**28, 2**29 - 1, rng.randint(20000, 2**29 - 1)])
            if n not in used and not (19000 <= n <= 19999):
                used.add(n)
                return n
        n = max(used) + 1
        used.add(n)
        return n

    def comment(self) -> str:
        if not self.comments or self.rng.random() > 0.25:
            return ""
        pool = ["a comment", "two\nlines", "with 'quotes' and \"double\" inside", "trailing space ",
                "unicode é ✓", "looks like code: x = {1: 2}"]
        if self.hostile_comments:
            pool += ["ends with a \"quote\"", "back\\slash \\n here", "x" * 90 + " long line"]
        return self.rng.choice(pool)

    # -- enums ------------------------------------------------------------
    def gen_enum(self, scope_values: set) -> EnumIR:
        rng = self.rng
        name = rng.choice(ENUM_NAMES) + str(self.uid())
        n = rng.randint(1, 6)
        prefix = ""
        if self.enum_prefix_names and rng.random() < 0.5:
            # the conventional ENUM_NAME_ prefix (which the plugin strips)
            prefix = _upper_snake(name) + "_"
        vals: List[Tuple[str, int]] = []
        nums = {0}
        tag = f"E{self._uid}"

        def vname(w):
            nm = (prefix + w) if prefix else f"{w}_{tag}"
            k = 0
            base = nm
            while nm in scope_values:
                k += 1
                nm = f"{base}{k}"
            scope_values.add(nm)
            return nm

        vals.append((vname(rng.choice(["UNSPECIFIED", "ZERO", "UNKNOWN"])), 0))
        words = [w for w in ENUM_VALUE_WORDS]
        rng.shuffle(words)
        alias = False
        for w in words[: n - 1]:
            r = rng.random()
            if r < 0.15 and len(vals) >= 1:
                v = rng.choice(vals)[1]  # alias
                alias = True
            elif r < 0.35:
                v = -rng.randint(1, 50)
            elif r < 0.45:
                v = rng.choice([2**31 - 1, -(2**31), 1000, 65536])
            else:
                v = rng.randint(1, 20)
            if v in nums and not alias:
                continue
            if v in nums and alias and v not in [x[1] for x in vals]:
                continue
            nums.add(v)
            vals.append((vname(w), v))
        alias = len({v for _, v in vals}) != len(vals)
        return EnumIR(name, vals, allow_alias=alias, comment=self.comment())

    # -- schema set ---------------------------------------------------------
    def gen_set(self) -> List[FileIR]:
        rng = self.rng
        nfiles = rng.randint(1, self.max_files)
        files: List[FileIR] = []
        pkgs = []
        for i in range(nfiles):
            if pkgs and rng.random() < 0.25:
                pkg = rng.choice(pkgs)
            else:
                depth = rng.choice([0, 1, 1, 2, 2, 3])
                pkg = ".".join(rng.choice(PKG_WORDS) for _ in range(depth))
            pkgs.append(pkg)
            files.append(FileIR(f"file{i}.proto", pkg))
        # declare types first (names only), then fill fields so that references can go anywhere legal
        scope_values: Dict[str, set] = {}
        type_names: Dict[str, set] = {}
        decl: List[Tuple[FileIR, List[str], MsgIR]] = []  # (file, path, msg)
        for f in files:
            tn = type_names.setdefault(f.package, set())
            sv = scope_values.setdefault(f.package, set())
            for _ in range(rng.randint(0, 2)):
                e = self.gen_enum(sv)
                if e.name.lower() in tn:
                    continue
                tn.add(e.name.lower())
                f.enums.append(e)
            for _ in range(rng.randint(1, self.max_msgs)):
                m = self._decl_msg(tn, depth=0)
                if m is not None:
                    f.msgs.append(m)
        # index of all types per file
        msg_index: List[Tuple[FileIR, str]] = []  # (file, full name with leading dot)
        enum_index: List[Tuple[FileIR, str]] = []
        for f in files:
            base = "." + f.package if f.package else ""
            for e in f.enums:
                enum_index.append((f, f"{base}.{e.name}"))

            def walk(m, prefix):
                full = f"{prefix}.{m.name}"
                msg_index.append((f, full))
                for e in m.enums:
                    enum_index.append((f, f"{full}.{e.name}"))
                for n in m.msgs:
                    walk(n, full)

            for m in f.msgs:
                walk(m, base)
        # fill
        for fi, f in enumerate(files):
            visible_files = {f.name} | {g.name for g in files[:fi]}

            def fill(m: MsgIR):
                for n in m.msgs:
                    fill(n)
                self._fill_fields(m, f, visible_files, msg_index, enum_index)

            for m in f.msgs:
                fill(m)
            if self.services and rng.random() < 0.5:
                for _ in range(rng.randint(1, 2)):
                    f.services.append(self._gen_service(f, visible_files, msg_index))
            f.imports = sorted(set(f.imports))
        return files

    def _decl_msg(self, tn: set, depth: int) -> Optional[MsgIR]:
        rng = self.rng
        pool = MSG_NAMES + (HOSTILE_MSG_NAMES if self.names == "hostile" else [])
        name = rng.choice(pool)
        if name.lower() in tn or depth == 0:
            u = str(self.uid())
            if self.names == "hostile" and rng.random() < 0.3:
                u = "".join(chr(65 + int(d)) for d in u)  # capitals instead of digits: FooBC, ABD (ends in a capital)
            name = name + u
        if name.lower() in tn:
            return None
        tn.add(name.lower())
        m = MsgIR(name, comment=self.comment())
        if depth < 2 and rng.random() < 0.3:
            inner = set()
            sv = set()
            for _ in range(rng.randint(1, 2)):
                if rng.random() < 0.4:
                    e = self.gen_enum(sv)
                    if e.name.lower() not in inner:
                        inner.add(e.name.lower())
                        m.enums.append(e)
                else:
                    n = self._decl_msg(inner, depth + 1)
                    if n is not None:
                        m.msgs.append(n)
        return m

    def _type_choice(self, f: FileIR, visible_files, msg_index, enum_index, *, allow_message=True,
                     self_full: Optional[str] = None) -> Tuple[str, Optional[str]]:
        """returns (type as written, import needed or None)"""
        rng = self.rng
        r = rng.random()
        if r < 0.5:
            return rng.choice(SCALARS), None
        if r < 0.62 and enum_index:
            ff, full = rng.choice([x for x in enum_index if x[0].name in visible_files] or enum_index[:0] or [(None, None)])
            if full:
                return full, (ff.name if ff.name != f.name else None)
        if r < 0.80 and allow_message:
            cands = [x for x in msg_index if x[0].name in visible_files]
            if not self.recursion and self_full:
                cands = [x for x in cands if x[1] != self_full]
            if cands:
                ff, full = rng.choice(cands)
                return full, (ff.name if ff.name != f.name else None)
        if r < 0.86:
            return ".google.protobuf.Timestamp", "google/protobuf/timestamp.proto"
        if r < 0.91:
            return ".google.protobuf.Duration", "google/protobuf/duration.proto"
        if r < 0.97:
            return ".google.protobuf." + rng.choice(WRAPPER_TYPES), "google/protobuf/wrappers.proto"
        if self.wkt_plain:
            c = rng.choice([("Empty", "empty"), ("FieldMask", "field_mask"), ("Any", "any")])
            return f".google.protobuf.{c[0]}", f"google/protobuf/{c[1]}.proto"
        return rng.choice(SCALARS), None

    def _fill_fields(self, m: MsgIR, f: FileIR, visible_files, msg_index, enum_index) -> None:
        rng = self.rng
        used_names: set = set()
        used_nums: set = set()
        nf = rng.randint(0, self.max_fields)
        n_oneofs = rng.choice([0, 0, 1, 1, 2])
        oneof_names = [f"choice{i}" if i else "kind_of" for i in range(n_oneofs)]
        if self.names in ("keywords", "hostile") and n_oneofs and rng.random() < 0.4:
            # group names are API (which_one_of(m, name)): camelCase, keywords, leading underscore, two names that only
            # differ in casing style
            oneof_names = rng.sample(ONEOF_NAMES, n_oneofs)
            used_names.update(o.replace("_", "").lower() for o in oneof_names)
        pending_oneof = {o: rng.randint(1, 4) for o in oneof_names}
        for _ in range(nf):
            name = self.field_name(used_names)
            num = self.number(used_nums)
            r = rng.random()
            fl = FieldIR(name, num, "int32", comment=self.comment())
            if self.comments and rng.random() < 0.1:
                fl.trailing = "trailing note"
            if r < 0.15:
                # map
                vt, imp = self._type_choice(f, visible_files, msg_index, enum_index)
                while vt.startswith(".google.protobuf.") and vt.split(".")[-1] in WRAPPER_TYPES + ["Empty", "FieldMask", "Any"]:
                    vt, imp = self._type_choice(f, visible_files, msg_index, enum_index)
                fl.type, fl.map_key = vt, rng.choice(MAP_KEYS)
            elif r < 0.35:
                vt, imp = self._type_choice(f, visible_files, msg_index, enum_index)
                while vt.startswith(".google.protobuf.") and vt.split(".")[-1] in WRAPPER_TYPES:
                    vt, imp = self._type_choice(f, visible_files, msg_index, enum_index)
                fl.type, fl.label = vt, "repeated"
            elif r < 0.50:
                vt, imp = self._type_choice(f, visible_files, msg_index, enum_index)
                fl.type, fl.label = vt, "optional"
            elif r < 0.70 and pending_oneof:
                o = rng.choice(list(pending_oneof))
                vt, imp = self._type_choice(f, visible_files, msg_index, enum_index)
                fl.type, fl.oneof = vt, o
                pending_oneof[o] -= 1
                if pending_oneof[o] <= 0:
                    del pending_oneof[o]
            else:
                vt, imp = self._type_choice(f, visible_files, msg_index, enum_index)
                fl.type = vt
            if imp:
                f.imports.append(imp)
            m.fields.append(fl)

    def _gen_service(self, f: FileIR, visible_files, msg_index) -> SvcIR:
        rng = self.rng
        name = rng.choice(SVC_NAMES) + str(self.uid())
        methods = []
        used = set()
        for _ in range(rng.randint(1, 5)):
            mn = rng.choice(METHOD_NAMES)
            if mn.lower().replace("_", "") in used:
                mn = mn + str(self.uid())
            used.add(mn.lower().replace("_", ""))

            def pick():
                cands = [x for x in msg_index if x[0].name in visible_files]
                r = rng.random()
                if r < 0.12:
                    f.imports.append("google/protobuf/empty.proto")
                    return ".google.protobuf.Empty"
                if r < 0.2:
                    f.imports.append("google/protobuf/wrappers.proto")
                    return ".google.protobuf." + rng.choice(["StringValue", "Int64Value"])
                ff, full = rng.choice(cands)
                if ff.name != f.name:
                    f.imports.append(ff.name)
                return full

            methods.append(MethodIR(mn, pick(), pick(), rng.random() < 0.5, rng.random() < 0.5, self.comment()))
        return SvcIR(name, methods, self.comment())

    # -- evolve -----------------------------------------------------------
    def older_version(self, files: List[FileIR], p_delete: float = 0.4) -> List[FileIR]:
        """Same packages and type names, a random subset of fields deleted (recursively,
        oneof members and map fields included).  Types are never deleted."""
        rng = self.rng
        old = copy.deepcopy(files)

        def strip(m: MsgIR):
            m.fields = [fl for fl in m.fields if rng.random() >= p_delete]
            for n in m.msgs:
                strip(n)

        for f in old:
            for m in f.msgs:
                strip(m)
            f.services = []
        return old


def _upper_snake(name: str) -> str:
    import re

    s = re.sub(r"(?<=[a-z0-9])(?=[A-Z])", "_", name)
    return s.upper()


def render_set(files: List[FileIR]) -> Dict[str, str]:
    return {f.name: render(f) for f in files}
