"""G-sched: schedule director for cooperative asyncio code + stateless exhaustive / random
exploration of its choice sequences.

Every workload operation is preceded by a *gate* owned by the director.  Releasing gates in
a chosen order realises a chosen interleaving using only the real, FIFO asyncio loop: no
yield is injected inside the code under test, so no interleaving is manufactured that the
program cannot have.  After each release the director either waits for quiescence or
deliberately does not (to overlap the next operation with in-flight wake-ups), or releases the
next gate within the same loop iteration (several tasks becoming ready at once); all are choice points.
"""
from __future__ import annotations

import asyncio
from typing import Any, Callable, Dict, List, Optional, Tuple


class Chooser:
    """replays a prefix of choices, then takes option 0; records the branching seen"""

    def __init__(self, prefix: List[int], rng=None):
        self.prefix = list(prefix)
        self.taken: List[int] = []
        self.widths: List[int] = []
        self.rng = rng

    def choose(self, n: int) -> int:
        i = len(self.taken)
        if i < len(self.prefix):
            c = self.prefix[i] % n
        elif self.rng is not None:
            c = self.rng.randrange(n)
        else:
            c = 0
        self.taken.append(c)
        self.widths.append(n)
        return c


class Director:
    def __init__(self, chooser: Chooser, max_spins: int = 64):
        self.chooser = chooser
        self.loop: Optional[asyncio.AbstractEventLoop] = None
        self.gates: Dict[str, asyncio.Future] = {}
        self.events: List[tuple] = []
        self.clock = 0
        self.max_spins = max_spins
        self.max_settle = 0
        self.unsettled = False
        self.batched = 0

    # ---- used by workload tasks
    async def gate(self, who: str) -> None:
        fut = self.loop.create_future()
        self.gates[who] = fut
        try:
            await fut
        finally:
            self.gates.pop(who, None)

    def log(self, *ev) -> None:
        self.clock += 1
        self.events.append((self.clock,) + ev)

    # ---- director side
    async def settle(self) -> int:
        """spin until nothing else is runnable; returns the number of spins needed"""
        for i in range(self.max_spins):
            await asyncio.sleep(0)
            if len(self.loop._ready) == 0:  # type: ignore[attr-defined]
                self.max_settle = max(self.max_settle, i + 1)
                return i + 1
        self.unsettled = True
        return self.max_spins

    async def run(self, tasks: Dict[str, asyncio.Task], allow_overlap: bool = True) -> None:
        """release gates until no task is waiting at a gate any more"""
        await self.settle()
        while True:
            waiting = sorted(w for w, f in self.gates.items() if not f.done())
            if not waiting and self.gates:
                await self.settle()  # released in a batch, not yet run
                continue
            if not waiting:
                # in-flight wake-ups (after an overlapping release) may still bring tasks to their next gate
                await self.settle()
                if not self.gates:
                    break
                continue
            n = len(waiting) * (3 if allow_overlap else 1)
            c = self.chooser.choose(n)
            who = waiting[c % len(waiting)]
            mode = c // len(waiting) if allow_overlap else 0  # 0 settle, 1 overlap, 2 batch
            fut = self.gates.get(who)
            if fut is not None and not fut.done():
                fut.set_result(None)
            if mode == 1:
                # let the released task reach its operation, but do not wait for the wake-ups it causes
                await asyncio.sleep(0)
            elif mode == 2 and len(waiting) > 1:
                # batch: the next release happens in the SAME loop iteration, so the released tasks run back to back, in
                # the chosen order, ahead of every wake-up they cause (several tasks becoming ready at once)
                self.batched += 1
                continue
            else:
                await self.settle()
        await self.settle()


def explore(run_one: Callable[[Chooser], Any], max_schedules: int, on_result: Callable[[Chooser, Any], None]) -> Tuple[int, bool]:
    """stateless DFS over choice sequences; returns (#schedules, exhausted?)"""
    stack: List[List[int]] = [[]]
    count = 0
    while stack:
        if count >= max_schedules:
            return count, False
        prefix = stack.pop()
        ch = Chooser(prefix)
        result = run_one(ch)
        count += 1
        on_result(ch, result)
        # siblings of every choice made beyond the prefix
        for i in range(len(ch.taken) - 1, len(prefix) - 1, -1):
            for alt in range(ch.taken[i] + 1, ch.widths[i]):
                stack.append(ch.taken[:i] + [alt])
    return count, True
