"""C08 Unknown fields survive decode/encode; schema evolution is lossless."""
from __future__ import annotations

import random
import traceback

from .. import corpus, monitors, spec
from ..build import Build, BuildError
from ..core import Result
from ..schema_gen import SchemaGen, render_set
from ..values import attr_names
from ..valuework import plan_items, replay_value, run_value_shard, witness
from ..values import BP, REF, Gen, diff_signature, diff_trees, tree_from_json, tree_to_json
from ..wiregen import WireGen

PROP = "C08"
LEVEL = "exploration"
RULE = ("(a) evolution: G-schema sets emitted twice (newer = as generated, older = random subset of fields deleted "
        "recursively, oneof members and maps included); values of the newer schema are encoded, passed through "
        "Older.parse -> bytes, and read again by the newer betterproto classes and by google.protobuf: the tree must be "
        "unchanged. (b) interleaving: reference serialisations with well-formed unknown records (numbers not in the "
        "schema up to 2**29-1, wire types 0/1/2/5) inserted at every kind of position (top level, and inside a plain "
        "sub-message); known fields must decode as without them and the unknown records must be re-emitted byte-for-byte "
        "in arrival order. (c) histories: a serialisation delivered in two pieces parsed onto ONE object keeps the unknown records of both; decoding more data into a copy / deepcopy never changes what the original re-emits (and vice versa). Unknown numbers include the schema-reserved window 19000..19999. distinct = distinct (schema pair, type, tree) / (type, encoding) cases.")
ASSUMPTIONS = [
    "older schemas only delete fields (types, numbers and kinds of surviving fields are unchanged)",
    "unknown records are never placed inside map entries (upb treats such entries specially; not in the spec)",
    "ruff is replaced by an identity stand-in when the plugin formats its output",
]
FLOORS = {"quick": {"evolve_roundtrips": 800, "interleavings": 2500},
          "thorough": {"evolve_roundtrips": 50000, "interleavings": 80000}}
ANCHORS = ['load_fields', 'Message.load', 'Message.dump']
CONTRACTS = ["bytes"]


def plan(tier, seed):
    shards = plan_items(tier, seed, n_gen_quick=6, n_gen_thorough=120, n_quick=100, n_thorough=700, with_inputs=False)
    for s in shards:
        s["kind"] = "interleave"
    n_pairs = 10 if tier == "quick" else 150
    for i in range(n_pairs):
        shards.append({"kind": "evolve", "seed": seed * 50021 + i, "n": 300 if tier == "quick" else 1000})
    # the directed pair, once with the newer and once with the OLDER classes used first in the process
    shards.append({"kind": "evolve", "seed": -1, "n": 120 if tier == "quick" else 600, "first": "newer"})
    shards.append({"kind": "evolve", "seed": -2, "n": 120 if tier == "quick" else 600, "first": "older"})
    return shards


# ---------------------------------------------------------------------------
# (b) interleaving

def _insert_unknown(rng, wg, known, recs_raw, k):
    """insert k unknown records at random positions; returns (new list, inserted in arrival order)"""
    raws = list(recs_raw)
    marks = [None] * len(raws)
    for _ in range(k):
        u = wg.unknown_record(known)
        pos = rng.randint(0, len(raws))
        raws.insert(pos, u)
        marks.insert(pos, u)
    mi = getattr(wg, "_c08_mi", None)
    if mi is not None and rng.random() < 0.5:
        # "any field number, any wire type, any position": a record that reuses the NUMBER of a declared field with a wire
        # type that does not fit it is unknown data too -- placed directly next to a real occurrence of that field
        from .c17 import _fits, _payload_for

        present = []
        for i, r in enumerate(raws):
            if marks[i] is None:
                try:
                    n = spec.dec_varint(r)[0] >> 3
                except Exception:
                    continue
                f = next((f for f in mi.fields if f.number == n and f.label != "map"), None)
                if f is not None:
                    present.append((i, f))
        if present:
            i, f = rng.choice(present)
            wts = [wt for wt in (0, 1, 2, 5) if not _fits(f, wt)]
            if wts:
                u = _payload_for(rng.choice(wts), f.number, rng)
                pos = i + rng.choice([0, 1])
                raws.insert(pos, u)
                marks.insert(pos, u)
    return raws, [m for m in marks if m is not None]


def check_interleave(b, bp, ref, mi, tree, res: Result, w, rng):
    cls = b.bp_class(mi.full_name)
    rcls = b.ref_class(mi.full_name)
    e0 = ref.make(mi, tree).SerializeToString()
    wg = WireGen(b, rng)
    known = {f.number for f in mi.fields}
    fields = {f.number: f for f in mi.fields}
    base = bp.norm(mi, cls().parse(e0))
    recs = spec.read_records(e0)
    check_histories(b, bp, mi, tree, res, w, rng, e0)
    for mode in ("top", "top", "nested"):
        if mode == "top":
            wg._c08_mi = mi
            # mostly a handful, now and then several hundred unknown records in one message
            k_unknown = rng.choice([255, 256, 257, 300, 1000]) if rng.random() < 0.012 else rng.randint(1, 4)
            if k_unknown > 4:
                res.note("interleavings_with_hundreds_of_unknown_records")
            raws, inserted = _insert_unknown(rng, wg, known, [r.raw for r in recs], k_unknown)
            wg._c08_mi = None
            e = b"".join(raws)
            nested_no = None
        else:
            cands = [i for i, r in enumerate(recs) if r.wt == spec.WT_LEN and r.number in fields
                     and fields[r.number].kind == "message" and fields[r.number].wkt is None
                     and fields[r.number].label in ("singular", "optional", "oneof")]
            if not cands:
                res.discards["no-plain-submessage"] += 1
                continue
            i = rng.choice(cands)
            r = recs[i]
            sub = b.msgs[fields[r.number].type_name]
            sknown = {f.number for f in sub.fields}
            try:
                sraws, inserted = _insert_unknown(rng, wg, sknown, [x.raw for x in spec.read_records(r.value)], rng.randint(1, 3))
            except spec.WireError:
                continue
            raws = [x.raw for x in recs]
            raws[i] = spec.enc_record(r.number, spec.WT_LEN, b"".join(sraws))
            e = b"".join(raws)
            nested_no = r.number
        ww = dict(w, bytes=e.hex(), mode=mode)
        res.note("interleavings")
        res.distinct.add(f"il:{hash(e)}")
        try:
            m = cls().parse(e)
            re_ = bytes(m)
        except Exception as ex:
            res.violation("interleave-raises", [mode, "raised:" + type(ex).__name__],
                          f"{mi.full_name}: parse/encode with interleaved unknown records raised {ex!r}; bytes={e.hex()[:300]}", ww)
            continue
        got = bp.norm(mi, cls().parse(re_))
        first = bp.norm(mi, cls().parse(e))
        for d in diff_trees(b, mi, base, first):
            res.violation("known-disturbed", [mode] + diff_signature(b, d),
                          f"{mi.full_name}: unknown records changed a known field: {d.short()}; bytes={e.hex()[:300]}", ww)
        for d in diff_trees(b, mi, base, got):
            res.violation("known-disturbed-after-reencode", [mode] + diff_signature(b, d),
                          f"{mi.full_name}: known field differs after re-encode: {d.short()}; bytes={e.hex()[:300]}", ww)
        # unknown records byte-for-byte in arrival order
        try:
            out_recs = spec.read_records(re_)
        except spec.WireError as ex:
            res.violation("reencode-malformed", [mode, type(ex).__name__], f"{mi.full_name}: re-encoded bytes unreadable: {ex!r}", ww)
            continue
        if nested_no is None:
            from .c17 import _fits

            out_unknown = [r.raw for r in out_recs if r.number not in known or (fields[r.number].label != "map" and not _fits(fields[r.number], r.wt))]
        else:
            sub_recs = [r for r in out_recs if r.number == nested_no and r.wt == spec.WT_LEN]
            if len(sub_recs) != 1:
                res.violation("unknown-lost", [mode, "nested-field-missing"], f"{mi.full_name}: nested field {nested_no} not re-emitted once", ww)
                continue
            out_unknown = [r.raw for r in spec.read_records(sub_recs[0].value) if r.number not in sknown]
        if out_unknown != inserted:
            kind = "lost" if len(out_unknown) < len(inserted) else ("reordered-or-altered" if len(out_unknown) == len(inserted) else "duplicated")
            wts = sorted({str(spec.dec_varint(u)[0] & 7) for u in inserted})
            res.violation("unknown-not-preserved", [mode, kind, "wt" + "+".join(wts)],
                          f"{mi.full_name}: unknown records not re-emitted byte-for-byte in order: in={[u.hex() for u in inserted]} out={[u.hex() for u in out_unknown]}", ww)
        # the reference's opinion of the re-emitted bytes
        try:
            rv = ref.norm(mi, rcls.FromString(re_))
            for d in diff_trees(b, mi, ref.norm(mi, rcls.FromString(e0)), rv):
                res.violation("reference-view", [mode] + diff_signature(b, d),
                              f"{mi.full_name}: reference reads re-emitted bytes differently: {d.short()}", ww)
        except Exception as ex:
            res.violation("reference-view", [mode, "reference-rejects"], f"{mi.full_name}: reference rejects re-emitted bytes: {ex!r}", ww)


def check_histories(b, bp, mi, tree, res: Result, w, rng, e0: bytes):
    """unknown fields across SEVERAL decode calls and copies of one object: (1) a serialization delivered in two
    pieces, each parsed onto the same object, keeps the unknown records of both pieces; (2) decoding more data
    into a copy never changes what the original re-emits (and vice versa)."""
    import copy as _copy

    cls = b.bp_class(mi.full_name)
    wg = WireGen(b, rng)
    known = {f.number for f in mi.fields}
    recs = [r.raw for r in spec.read_records(e0)]
    u1 = [wg.unknown_record(known) for _ in range(rng.randint(1, 2))]
    u2 = [wg.unknown_record(known) for _ in range(rng.randint(1, 2))]
    cut = rng.randint(0, len(recs))
    part1 = b"".join(recs[:cut] + u1)
    part2 = b"".join(u2[:1] + recs[cut:] + u2[1:])
    ww = dict(w, parts=[part1.hex(), part2.hex()], mode="two-decodes")
    res.note("histories_two_decodes")
    try:
        m = cls().parse(part1)
        m.parse(part2)
        out = bytes(m)
        got_unknown = [r.raw for r in spec.read_records(out) if r.number not in known]
    except Exception as ex:
        res.violation("interleave-raises", ["two-decodes", "raised:" + type(ex).__name__], f"{mi.full_name}: {ex!r}", ww)
        return
    if got_unknown != u1 + u2:
        kind = "lost" if len(got_unknown) < len(u1 + u2) else "reordered-or-altered"
        res.violation("unknown-not-preserved", ["two-decodes", kind, "-"],
                      f"{mi.full_name}: unknown records of two decode calls onto one object: in={[u.hex() for u in u1 + u2]} out={[u.hex() for u in got_unknown]}", ww)
    # (1b) a singular sub-message field occurring several times: unknown records inside the last occurrence survive
    fields = {f.number: f for f in mi.fields}
    recs_p = spec.read_records(e0)
    cands = [r for r in recs_p if r.wt == spec.WT_LEN and r.number in fields and fields[r.number].kind == "message"
             and fields[r.number].wkt is None and fields[r.number].label in ("singular", "optional", "oneof")]
    if cands:
        r = rng.choice(cands)
        sknown = {f.number for f in b.msgs[fields[r.number].type_name].fields}
        ua, ub = wg.unknown_record(sknown), wg.unknown_record(sknown)
        data = e0 + spec.enc_record(r.number, spec.WT_LEN, ua) + spec.enc_record(r.number, spec.WT_LEN, r.value + ub)
        ww2 = dict(w, bytes=data.hex(), mode="sub-message-twice")
        res.note("histories_sub_message_twice")
        try:
            out = bytes(cls().parse(data))
            subs = [x for x in spec.read_records(out) if x.number == r.number and x.wt == spec.WT_LEN]
            inner_unknown = [x.raw for sr in subs for x in spec.read_records(sr.value) if x.number not in sknown]
            # the implementation replaces an earlier occurrence by a later one (no merge): only what the LAST occurrence
            # carries is required to survive -- merge semantics are not part of the property
            missing = [u for u in (ub,) if u not in inner_unknown]
            if missing:
                res.violation("unknown-not-preserved", ["sub-message-twice", "lost", "-"],
                              f"{mi.full_name}: field {r.number} occurs several times; unknown records {[u.hex() for u in missing]} inside an occurrence were dropped; "
                              f"input {data.hex()[:200]}", ww2)
        except Exception as ex:
            res.violation("interleave-raises", ["sub-message-twice", "raised:" + type(ex).__name__], f"{mi.full_name}: {ex!r}", ww2)
        # (1c) re-homing: a decoded child (carrying unknown fields) handed to the constructor of a new parent
        try:
            src = cls().parse(e0[:0] + b"".join(x.raw for x in recs_p if x is not r) + spec.enc_record(r.number, spec.WT_LEN, r.value + ua))
            attr = attr_names(cls)[r.number]
            child = getattr(src, attr)
            fresh = cls(**{attr: child})
            got = [x for x in spec.read_records(bytes(fresh)) if x.number == r.number and x.wt == spec.WT_LEN]
            kept = [x.raw for sr in got for x in spec.read_records(sr.value) if x.number not in sknown]
            res.note("histories_rehomed_child")
            if ua not in kept:
                res.violation("unknown-not-preserved", ["child-passed-to-constructor", "lost", "-"],
                              f"{mi.full_name}: a decoded sub-message holding the unknown record {ua.hex()} was passed to the constructor of a new {mi.full_name}; "
                              f"the new message encodes to {bytes(fresh).hex()[:160]}", dict(w, mode="rehome", bytes=e0.hex()))
        except Exception as ex:
            res.note("rehome-raised:" + type(ex).__name__)
    # (2) copies
    for how in ("copy", "deepcopy"):
        res.note("histories_copy_then_decode")
        try:
            orig = cls().parse(part1)
            before = bytes(orig)
            dup = _copy.copy(orig) if how == "copy" else _copy.deepcopy(orig)
            target, other = (dup, orig) if rng.random() < 0.5 else (orig, dup)
            target.parse(b"".join(u2))
            after_other = bytes(other)
            after_target_unknown = [r.raw for r in spec.read_records(bytes(target)) if r.number not in known]
        except Exception as ex:
            res.violation("interleave-raises", [how + "-then-decode", "raised:" + type(ex).__name__], f"{mi.full_name}: {ex!r}", ww)
            continue
        if after_other != before:
            res.violation("unknown-not-preserved", [how + "-then-decode", "other-object-changed", "-"],
                          f"{mi.full_name}: decoding more data into {'the copy' if target is dup else 'the original'} changed what the other object re-emits: "
                          f"{before.hex()[:120]} -> {after_other.hex()[:120]}", dict(ww, mode=how + "-then-decode"))
        if after_target_unknown != u1 + u2:
            res.violation("unknown-not-preserved", [how + "-then-decode", "lost-or-altered", "-"],
                          f"{mi.full_name}: unknown records after {how} + further decode: in={[u.hex() for u in u1 + u2]} out={[u.hex() for u in after_target_unknown]}",
                          dict(ww, mode=how + "-then-decode"))


# ---------------------------------------------------------------------------
# (a) evolution

_DIRECTED_NEW = {"inv.proto": 'syntax = "proto3";\npackage vfevolve.inv;\n'
                  "enum Kind { KIND_NONE = 0; KIND_A = 1; KIND_B = 2; }\n"
                  "message Sub { int32 a = 1; string b = 2; repeated int32 c = 3; }\n"
                  "message Item { string name = 1; int32 qty = 2; Sub sub = 3; map<string, Sub> subs = 4; Kind kind = 5; }\n"
                  "message Inventory { map<string, Item> items = 1; map<int32, Kind> kinds = 2; repeated Item list = 3; Item one = 4; "
                  "oneof pick { Item picked = 5; string note = 6; } optional Item maybe = 7; }\n"}
_DIRECTED_OLD = {"inv.proto": 'syntax = "proto3";\npackage vfevolve.inv;\n'
                  "enum Kind { KIND_NONE = 0; KIND_A = 1; }\n"
                  "message Sub { int32 a = 1; }\n"
                  "message Item { string name = 1; Sub sub = 3; map<string, Sub> subs = 4; }\n"
                  "message Inventory { map<string, Item> items = 1; map<int32, Kind> kinds = 2; repeated Item list = 3; Item one = 4; "
                  "oneof pick { Item picked = 5; string note = 6; } optional Item maybe = 7; }\n"}


def _pair(seed):
    if seed < 0:
        # a fixed pair in which value types of maps / lists / oneof members lose fields; the same type NAMES exist in both
        # generated packages, which are loaded side by side in one process
        return dict(_DIRECTED_NEW), dict(_DIRECTED_OLD)
    rng = random.Random(f"evolve-{seed}")
    g = SchemaGen(rng, names="keywords", services=False, max_files=2)
    new = g.gen_set()
    old = g.older_version(new, p_delete=rng.choice([0.2, 0.4, 0.6]))
    return render_set(new), render_set(old)


def run_evolve(shard) -> Result:
    res = Result()
    newp, oldp = _pair(shard["seed"])
    try:
        bn = Build(newp).full()
    except BuildError as e:
        res.inconclusive.append(f"newer schema could not be built: {e.stage}: {e.detail[-400:]}")
        return res
    try:
        bo = Build(oldp).full()
    except BuildError as e:
        bn.cleanup()
        res.inconclusive.append(f"older schema could not be built: {e.stage}: {e.detail[-400:]}")
        return res
    try:
        monitors.install(CONTRACTS)
        rng = random.Random(f"evolve-values-{shard['seed']}")
        msgs = bn.user_messages()
        only = shard.get("only_msg")
        g = Gen(bn, rng)
        bpn, refn = BP(bn), REF(bn)
        per = max(3, shard["n"] // max(1, len(msgs)))
        if shard.get("first") == "older" or shard["seed"] == -2:
            # the older generated classes decode something before the newer ones are ever used
            for omi_ in bo.user_messages():
                try:
                    ocls = bo.bp_class(omi_.full_name)
                    ocls().parse(bytes(BP(bo).make(omi_, Gen(bo, random.Random(1)).tree(omi_, 0, "maximal"))))
                except Exception:
                    pass
        for mi in msgs:
            if only and mi.full_name != only:
                continue
            trees = [shard_tree] if (shard_tree := shard.get("tree")) is not None else (
                [g.tree(mi, 0, "maximal")] + [g.tree(mi, 0, "random") for _ in range(per)])
            omi = bo.msgs[mi.full_name]
            deleted = len(mi.fields) - len(omi.fields)
            for tree in trees:
                w = {"kind": "evolve", "seed": shard["seed"], "msg": mi.full_name, "tree": tree_to_json(tree)}
                monitors.set_context(w)
                res.case(f"ev:{shard['seed']}|{mi.full_name}|{hash(repr(tree_to_json(tree)))}")
                res.note("evolve_roundtrips")
                if deleted:
                    res.note("evolve_with_deleted_fields")
                try:
                    data = bytes(bpn.make(mi, tree))
                    old = bo.bp_class(mi.full_name)().parse(data)
                    re_ = bytes(old)
                    back = bn.bp_class(mi.full_name)().parse(re_)
                    got = bpn.norm(mi, back)
                except Exception as ex:
                    res.violation("evolve-raises", ["raised:" + type(ex).__name__],
                                  f"{mi.full_name}: newer->older->newer raised {ex!r}\n{traceback.format_exc()[-600:]}", w)
                    continue
                for d in diff_trees(bn, mi, tree, got):
                    res.violation("evolve", diff_signature(bn, d) + ["deleted" if not any(f.number == d.fi.number for f in omi.fields) else "kept"],
                                  f"{mi.full_name}: value changed through an older reader/writer: {d.short()}", w)
                # the same trip over a size-delimited stream (two messages, so that a wrong size shows up)
                try:
                    import io

                    import betterproto

                    s1 = io.BytesIO()
                    bpn.make(mi, tree).dump(s1, betterproto.SIZE_DELIMITED)
                    bpn.make(mi, tree).dump(s1, betterproto.SIZE_DELIMITED)
                    s1.seek(0)
                    s2 = io.BytesIO()
                    for _ in range(2):
                        bo.bp_class(mi.full_name)().load(s1, betterproto.SIZE_DELIMITED).dump(s2, betterproto.SIZE_DELIMITED)
                    s2.seek(0)
                    for k in range(2):
                        back2 = bn.bp_class(mi.full_name)().load(s2, betterproto.SIZE_DELIMITED)
                        ds = diff_trees(bn, mi, tree, bpn.norm(mi, back2))
                        for d in ds:
                            res.violation("evolve-delimited", diff_signature(bn, d) + ["deleted" if not any(f.number == d.fi.number for f in omi.fields) else "kept"],
                                          f"{mi.full_name}: value changed through an older reader/writer over a size-delimited stream (message #{k}): {d.short()}", w)
                    res.note("evolve_delimited_roundtrips")
                except Exception as ex:
                    res.violation("evolve-delimited", ["raised:" + type(ex).__name__, "with-deleted-fields" if deleted else "same-fields"],
                                  f"{mi.full_name}: newer->older->newer over a size-delimited stream raised {ex!r}", w)
                try:
                    rv = refn.norm(mi, bn.ref_class(mi.full_name).FromString(re_))
                    for d in diff_trees(bn, mi, tree, rv):
                        res.violation("evolve-reference-view", diff_signature(bn, d),
                                      f"{mi.full_name}: reference reads the older writer's bytes differently: {d.short()}", w)
                except Exception as ex:
                    res.violation("evolve-reference-view", ["reference-rejects"], f"{mi.full_name}: {ex!r}", w)
                if len(res.samples) < 2 and tree:
                    res.sample({"pair_seed": shard["seed"], "message": mi.full_name, "fields_deleted_in_older": deleted,
                                "tree": repr(tree)[:300]})
        monitors.drain(res, PROP)
    finally:
        bn.cleanup()
        bo.cleanup()
    return res


def run_shard(shard):
    if shard.get("kind") == "evolve":
        return run_evolve(shard)
    return run_value_shard(shard, PROP, check_interleave, CONTRACTS)


def replay(w):
    if w.get("kind") == "evolve":
        r = run_evolve({"kind": "evolve", "seed": w["seed"], "n": 1, "only_msg": w["msg"], "tree": tree_from_json(w["tree"])})
        return r.violations
    return replay_value(w, check_interleave, PROP, CONTRACTS)


RULE += " Now and then 255..1000 unknown records in one message; 'large' and 'after failures' shards of the shared value driver."
