"""C01 Binary round trip: parse(bytes(m)) reproduces m for every message value."""
from __future__ import annotations

from ..core import Result
from ..valuework import plan_items, replay_value, run_value_shard
from ..values import Diff, diff_signature, diff_trees, value_class

PROP = "C01"
LEVEL = "exploration"
RULE = ("for every message type of the corpus (matrix schema: every kind x label; seeded G-schema sets; tests/inputs) "
        "value trees in three shapes (matrix = one field, one boundary class; random; maximal) are built through the "
        "constructor, through attribute assignment and by in-place mutation of lazily created containers / sub-messages, encoded, decoded (parse and FromString), re-encoded; the oracle "
        "compares neutral trees keyed by field number (values, oneof selection, None-ness, nested presence), the "
        "library's own ==, and the bytes. Population since widened: presence-only message values, freshly constructed empty messages, +-0.0 as distinct values, length-prefix boundary lengths, the matrix schema generated under typing.310 / pydantic_dataclasses, single-feature packages and multi-file extra sets; a directed shard adds recursive chains up to depth 120, one sub-message object referenced from several places and a valid decode after decodes that failed deep inside. distinct = distinct (schema, message type, value tree) triples; the empty "
        "tree is the only trivial case.")
ASSUMPTIONS = [
    "float fields get float32-exact inputs; NaN compares as NaN; -0.0 is identified with +0.0 (implicit presence uses ==)",
    "datetimes are timezone-aware, microsecond resolution, years 1..9999; strings contain no lone surrogates",
    "a present-but-empty plain sub-message is built with Sub().parse(b'') (public API)",
    "ruff is replaced by an identity stand-in when the plugin formats its output",
]
FLOORS = {"quick": {"evaluations": 2000, "distinct": 1500, "roundtrips": 4000},
          "thorough": {"evaluations": 100000, "distinct": 60000, "roundtrips": 200000}}
ANCHORS = ['Message.dump', 'Message.load', 'Message._postprocess_single', '_preprocess_single', '_serialize_single', 'load_fields', 'load_varint', 'Message.__eq__']
CONTRACTS = ["bytes", "varint", "oneof", "time"]


def plan(tier, seed):
    return plan_items(tier, seed, n_gen_quick=10, n_gen_thorough=300, n_quick=120, n_thorough=800) + [{"kind": "w0"}, {"kind": "directed"}]


def run_directed() -> Result:
    """shapes the tree generator does not produce: (a) long chains of a recursive message (every depth up to 120);
    (b) ONE sub-message object referenced from several places of a message (two fields, twice in a list, two map values):
    it must encode like equal but distinct objects; (c) a valid message decoded right after decodes that FAILED deep inside
    a nested message (state left behind by a failure must not affect the next call)"""
    from .. import corpus

    res = Result()
    b = corpus.build_item({"kind": "matrix"})
    try:
        Sub = b.bp_class(".vf.matrix.Sub")
        Nested = b.bp_class(".vf.matrix.Nested")
        w = {"kind": "directed"}

        def chain(depth):
            m = Sub(a=depth, s="leaf")
            for d in range(depth - 1, 0, -1):
                m = Sub(a=d, child=m)
            return m

        for depth in list(range(1, 30)) + [50, 64, 99, 100, 101, 110, 120]:
            res.case(f"chain:{depth}")
            res.note("roundtrips")
            res.note("directed_chain_depths")
            try:
                m = chain(depth)
                data = bytes(m)
                back = Sub().parse(data)
                n, x = 0, back
                while betterproto_present(x):
                    n, x = n + 1, x.child
                if bytes(back) != data or n != depth - 1 or not (back == m):
                    res.violation("roundtrip", ["recursive-chain", f"depth>{'100' if depth > 100 else '1'}", "differs"],
                                  f"a chain of {depth} nested .vf.matrix.Sub messages came back with {n + 1} levels / other bytes", w)
            except Exception as e:
                res.violation("roundtrip", ["recursive-chain", f"depth>{'100' if depth > 100 else '1'}", "raised:" + type(e).__name__],
                              f"a chain of {depth} nested .vf.matrix.Sub messages: {e!r}", w)
        # (b) shared object
        for label, mk in (
            ("two-fields", lambda s: Nested(sub=s, subs=[s])),
            ("twice-in-a-list", lambda s: Nested(subs=[s, s, s])),
            ("two-map-values", lambda s: Nested(by_name={"a": s, "b": s})),
            ("child-of-siblings", lambda s: Nested(subs=[Sub(a=1, child=s), Sub(a=2, child=s)])),
        ):
            res.case("shared:" + label)
            res.note("roundtrips")
            res.note("directed_shared_object_cases")
            try:
                shared = mk(Sub(a=7, s="shared", child=Sub(a=8)))
                import copy as _c
                distinct = mk(Sub(a=7, s="shared", child=Sub(a=8)))
                distinct = Nested().parse(bytes(_c.deepcopy(distinct)))
                got = bytes(shared)
                if got != bytes(distinct) or bytes(Nested().parse(got)) != got:
                    res.violation("roundtrip", ["shared-sub-message-object", label, "differs"],
                                  f"one Sub object referenced {label}: {got.hex()[:120]} vs {bytes(distinct).hex()[:120]} for distinct equal objects", w)
            except Exception as e:
                res.violation("roundtrip", ["shared-sub-message-object", label, "raised:" + type(e).__name__],
                              f"one Sub object referenced {label}: {e!r}", w)
        # (c) failures first
        good = bytes(Nested(sub=Sub(a=1, child=Sub(a=2, child=Sub(a=3, s="x")))))
        deep_bad = bytes(chain(40))[:-3] + b"\xff\xff\xff"  # ends in an invalid string / truncated varint 40 levels down
        for rep in range(6):
            for _ in range(30):
                try:
                    Sub().parse(deep_bad)
                except Exception:
                    res.note("directed_failed_decodes")
            res.case(f"after-failures:{rep}")
            res.note("roundtrips")
            try:
                if bytes(Nested().parse(good)) != good:
                    res.violation("roundtrip", ["after-failed-decodes", "valid-message", "differs"], "a valid message decodes differently after failed decodes", w)
            except Exception as e:
                res.violation("roundtrip", ["after-failed-decodes", "valid-message", "raised:" + type(e).__name__],
                              f"a valid 4-level message raised {e!r} after {30 * (rep + 1)} failed decodes of other input in the same process", w)
                break
    finally:
        b.cleanup()
    return res


def betterproto_present(x) -> bool:
    import betterproto

    return betterproto.serialized_on_wire(x.child)


def isolate(b, mi, tree, pred):
    """fields (and list/map elements) whose one-field projection already fails pred"""
    out = []
    for fi in mi.fields:
        if fi.number not in tree:
            continue
        v = tree[fi.number]
        sub = {fi.number: v}
        try:
            ok = pred(sub)
        except Exception:
            ok = False
        if ok:
            continue
        if isinstance(v, list) and len(v) > 1:
            bad = [x for x in v if not _safe(pred, {fi.number: [x]})]
            if bad:
                out.extend((fi, x) for x in bad[:3])
                continue
        if isinstance(v, dict) and fi.label == "map" and len(v) > 1:
            bad = [(k, x) for k, x in v.items() if not _safe(pred, {fi.number: {k: x}})]
            if bad:
                out.extend((fi, x) for k, x in bad[:3])
                continue
        out.append((fi, v[0] if isinstance(v, list) and v else (next(iter(v.values())) if isinstance(v, dict) and fi.label == "map" and v else v)))
    return out


def isolate_deep(b, mi, tree, pred, depth=0):
    """like isolate(), but descends into message-valued fields so that the carrier reported is
    the innermost field whose one-field projection (wrapped in its ancestors) still fails"""
    out = []
    for fi, v in isolate(b, mi, tree, pred):
        inner = fi.map_value if fi.label == "map" else fi
        if depth < 4 and isinstance(v, dict) and inner.kind == "message" and inner.wkt is None and v:
            sub_mi = b.msgs[inner.type_name]

            def wrap(sub_t, fi=fi):
                if fi.label == "repeated":
                    return {fi.number: [sub_t]}
                if fi.label == "map":
                    k = next(iter(tree[fi.number]))
                    return {fi.number: {k: sub_t}}
                return {fi.number: sub_t}

            if not _safe(pred, wrap({})):
                out.append((fi, v))  # fails even with an empty sub-message: the container is the carrier
                continue
            deeper = isolate_deep(b, sub_mi, v, lambda st: pred(wrap(st)), depth + 1)
            deeper = [(f2, v2) for f2, v2 in deeper if f2 is not None]
            if deeper:
                out.extend(deeper)
                continue
        out.append((fi, v))
    return out


def _safe(pred, t):
    try:
        return pred(t)
    except Exception:
        return False


def carrier_sig(b, fi, v):
    d = Diff("", fi, "x", v, None)
    return diff_signature(b, d)[:2]


def check_case(b, bp, ref, mi, tree, res: Result, w, rng):
    cls = b.bp_class(mi.full_name)
    for route in ("ctor", "attr", "inplace"):
        ww = dict(w, route=route)
        try:
            m = bp.make(mi, tree, route)
        except Exception as e:
            res.violation("construct", ["construct", route, "raised:" + type(e).__name__],
                          f"{mi.full_name} could not be constructed ({route}): {e!r}", ww)
            continue
        try:
            data = bytes(m)
            m2 = cls().parse(data)
            data2 = bytes(m2)
            m3 = cls.FromString(data)
            data3 = bytes(m3)
        except Exception as e:
            sigs = isolate(b, mi, tree, lambda t: _roundtrip_ok(bp, cls, mi, t, route))
            for fi, v in sigs or [(None, None)]:
                cs = carrier_sig(b, fi, v) if fi is not None else ["combination", "?"]
                res.violation("roundtrip-raises", cs + ["raised:" + type(e).__name__],
                              f"{mi.full_name} ({route}) encode/decode raised {e!r}", ww)
            continue
        res.note("roundtrips")
        eq = (m2 == m)
        eq3 = (m3 == m2)
        problems = []
        t1 = bp.norm(mi, m)
        t2 = bp.norm(mi, m2, problems)
        for p, what in problems:
            res.violation("decoded-type", ["decoded-type", what], f"{mi.full_name}{p}: {what}", ww)
        d_build = diff_trees(b, mi, tree, t1)
        for d in d_build:
            res.violation("construct-readback", [route] + diff_signature(b, d), f"{mi.full_name} built via {route} reads back differently: {d.short()}", ww)
        diffs = diff_trees(b, mi, t1, t2)
        for d in diffs:
            res.violation("roundtrip", [route] + diff_signature(b, d), f"{mi.full_name} ({route}): parse(bytes(m)) differs: {d.short()}", ww)
        if not diffs and not eq:
            bad = isolate(b, mi, tree, lambda t: _eq_ok(bp, cls, mi, t, route))
            for fi, v in bad or [(None, None)]:
                cs = carrier_sig(b, fi, v) if fi is not None else ["combination", "?"]
                res.violation("eq", cs + ["unequal-after-identical-roundtrip"],
                              f"{mi.full_name} ({route}): parse(bytes(m)) != m although every field is identical", ww)
        if data2 != data:
            bad = isolate(b, mi, tree, lambda t: _reenc_ok(bp, cls, mi, t, route))
            for fi, v in bad or [(None, None)]:
                cs = carrier_sig(b, fi, v) if fi is not None else ["combination", "?"]
                res.violation("reencode", cs + ["bytes-differ"],
                              f"{mi.full_name} ({route}): bytes(parse(b)) != b: {data.hex()[:200]} -> {data2.hex()[:200]}", ww)
        if data3 != data2 or (eq and not eq3):
            res.violation("fromstring", ["FromString", "differs-from-parse"],
                          f"{mi.full_name}: FromString and parse disagree", ww)


def _roundtrip_ok(bp, cls, mi, t, route):
    m = bp.make(mi, t, route)
    cls().parse(bytes(m))
    return True


def _eq_ok(bp, cls, mi, t, route):
    m = bp.make(mi, t, route)
    return cls().parse(bytes(m)) == m


def _reenc_ok(bp, cls, mi, t, route):
    m = bp.make(mi, t, route)
    d = bytes(m)
    return bytes(cls().parse(d)) == d


def run_shard(shard):
    if shard.get("kind") == "w0":
        from ..w0 import run_w0

        return run_w0(PROP, CONTRACTS)
    if shard.get("kind") == "directed":
        return run_directed()
    return run_value_shard(shard, PROP, check_case, CONTRACTS)


def replay(w):
    if w.get("kind") == "w0":
        from ..w0 import run_w0

        return run_w0(PROP, CONTRACTS).violations
    if w.get("kind") == "directed":
        return run_directed().violations
    return replay_value(w, check_case, PROP, CONTRACTS)


RULE += " Also 'large' shards (one field per case with 127..70000 bytes / 31..2100 elements / 31..257 entries, on generated and hand-built classes) and an 'after failures' shard (the process first sees 330 decodes fail inside nested messages and one absurdly deep message)."
