"""C13 Cross-package type references in generated code resolve to the right class."""
from __future__ import annotations

import itertools
import random
import traceback
import typing

from ..build import Build, BuildError
from ..core import Result
from ..values import hints_of
from ..values import attr_names

PROP = "C13"
LEVEL = "exploration"
RULE = ("COMPLETE enumeration of ordered pairs (importer, importee) of package paths of depth 0..3 over a small alphabet "
        "(quick: {a,b} = 15 paths, 225 pairs; thorough: {a,b,c} = 40 paths, 1600 pairs), each generated in isolation by "
        "real protoc + the plugin: a Holder message and a service in the importer refer to {top-level message, nested "
        "message, enum, nested enum} of the importee at the sites {field, repeated, map value, oneof member, rpc input, "
        "rpc output} (enums not at rpc sites) plus well-known types; after importlib.import_module of every generated "
        "package the lazily resolved type of every site must be IDENTICAL (is) to the class generated for the target, a "
        "message built through each referencing field must round-trip to an instance of that class, and well-known types "
        "must resolve to betterproto's bundled classes. Plus 'all at once': every package refers to every other with "
        "definitions and references in different files (mutually circular packages, many references in one module). All "
        "pairs of one shard run in one process (so cross-module caches are exercised). The holder also has a field NAMED like the import alias of a descendant package and two maps with suffix-related names. distinct = distinct ordered pairs.")
ASSUMPTIONS = [
    "package path components are lower-case (upper-case package names are outside the grammar, see DESIGN)",
    "ruff is replaced by an identity stand-in when the plugin formats its output",
]
FLOORS = {"quick": {"pairs": 225, "sites_checked": 4000}, "thorough": {"pairs": 1600, "sites_checked": 30000}}
ANCHORS = ['Message._type_hints', 'Message._cls_for']
PLUGIN_ANCHORS = ['get_type_reference', 'parse_source_type_name', 'reference_cousin', 'reference_ancestor', 'reference_descendent', 'reference_sibling', 'reference_absolute']
CONTRACTS = []
KINDS = [("msg", "Target"), ("nested", "Target.Inner"), ("enum", "Kind"), ("nested_enum", "Target.Mode"),
         ("deep", "Target.Inner.Deep"), ("deep_enum", "Target.Inner.Level")]
# package paths whose names are string-prefixes of each other (a / ab, v1 / v1beta): a name-based instead of a
# component-based comparison goes wrong exactly here
SPECIAL = [(), ("a",), ("ab",), ("a", "c"), ("ab", "c"), ("a", "b"), ("a", "bc"), ("foo", "v1"), ("foo", "v1beta"),
           ("foo", "v1beta", "x"), ("foo",),
           # long package paths that differ only in their FIRST component (any shortening of import aliases to their tail
           # makes them collide in a module that refers to both)
           ("north", "cloud", "platform", "api", "catalog", "v1", "types"), ("south", "cloud", "platform", "api", "catalog", "v1", "types")]
WKT = [("ts", "google.protobuf.Timestamp"), ("du", "google.protobuf.Duration"), ("empty", "google.protobuf.Empty"),
       ("any", "google.protobuf.Any"), ("w32", "google.protobuf.Int32Value"), ("mask", "google.protobuf.FieldMask")]


def paths(alphabet, max_depth=3):
    out = [()]
    for d in range(1, max_depth + 1):
        out += list(itertools.product(alphabet, repeat=d))
    return out


def relation(p, q) -> str:
    if p == q:
        return "same"
    if not p or not q:
        return "root-" + ("imports-child" if not p else "imported-by-child")
    if q[: len(p)] == p:
        return "descendant"
    if p[: len(q)] == q:
        return "ancestor"
    if p[:-1] == q[:-1]:
        return "sibling"
    common = 0
    for x, y in zip(p, q):
        if x != y:
            break
        common += 1
    return f"cousin(up{len(p) - common},down{len(q) - common})"


def plan(tier, seed):
    alpha = ("a", "b") if tier == "quick" else ("a", "b", "c")
    ps = paths(alpha)
    pairs = [(list(p), list(q)) for p in ps for q in ps]
    rng = random.Random(seed)
    rng.shuffle(pairs)
    n = 16
    shards = [{"kind": "pairs", "pairs": pairs[i::n]} for i in range(n)]
    shards.append({"kind": "all", "alphabet": list(alpha if tier == "thorough" else ("a", "b")), "max_depth": 3 if tier == "quick" else 2, "seed": seed})
    shards.append({"kind": "all", "alphabet": ["a", "b"], "max_depth": 2, "seed": seed + 1})
    sp = [(list(p), list(q)) for p in SPECIAL for q in SPECIAL]
    for i in range(4):
        shards.append({"kind": "pairs", "pairs": sp[i::4]})
    shards.append({"kind": "all", "paths": [list(p) for p in SPECIAL], "seed": seed + 2})
    # hand-written multi-file layouts about references (a package spread over files that refer to each other through other
    # packages, root <-> child cycles, packages whose names are prefixes of each other, `import public` re-exports inside
    # the referencing package): every message / enum typed field must resolve to the class generated for its target
    for nm in REFERENCE_SETS:
        shards.append({"kind": "layout", "name": nm})
    return shards


REFERENCE_SETS = ["public_import_same_package", "package_cycle", "root_cycle", "prefix_packages", "twin_map_names"]


def fq(pkg, name):
    return "." + ".".join(list(pkg) + [name])


def defs_proto(pkg, tag=""):
    lines = ['syntax = "proto3";']
    if pkg:
        lines.append(f"package {'.'.join(pkg)};")
    lines += [
        f"enum Kind{tag} {{ KIND{tag}_ZERO = 0; KIND{tag}_ONE = 1; }}",
        f"message Target{tag} {{",
        "  int32 x = 1;",
        "  message Inner { int32 y = 1; message Deep { int32 z = 1; } enum Level { LEVEL_ZERO = 0; LEVEL_UP = 3; } }",
        "  enum Mode { MODE_ZERO = 0; MODE_B = 2; }",
        "  Inner inner = 2;",
        "  Mode mode = 3;",
        "}",
    ]
    return "\n".join(lines) + "\n"


def refs_proto(pkg, targets, imports, holder="Holder", full_sites=True):
    """targets: list of (label, importee pkg tuple, tag)"""
    lines = ['syntax = "proto3";']
    if pkg:
        lines.append(f"package {'.'.join(pkg)};")
    for i in imports:
        lines.append(f'import "{i}";')
    for w in ("timestamp", "duration", "empty", "any", "wrappers", "field_mask"):
        lines.append(f'import "google/protobuf/{w}.proto";')
    lines.append(f"message {holder} {{")
    n = 1
    used_aliases = set()
    sites = []  # (site, kind, label, field name, number)
    for label, q, tag in targets:
        for kind, tname in KINDS:
            t = fq(q, tname.replace("Target", "Target" + tag).replace("Kind", "Kind" + tag))
            lines.append(f"  {t} f_{label}_{kind} = {n};")
            sites.append(("field", kind, label, n))
            n += 1
            if full_sites:
                lines.append(f"  repeated {t} r_{label}_{kind} = {n};")
                sites.append(("repeated", kind, label, n))
                n += 1
                lines.append(f"  map<string, {t}> m_{label}_{kind} = {n};")
                sites.append(("map", kind, label, n))
                n += 1
        if full_sites:
            # two maps whose names are suffix-related (items / sub_items), different value types, the shorter declared first
            tm = fq(q, "Target" + tag)
            ti = fq(q, "Target" + tag + ".Inner")
            lines.append(f"  map<string, {tm}> items_{label} = {n};")
            sites.append(("map", "msg", label, n))
            n += 1
            lines.append(f"  map<string, {ti}> sub_items_{label} = {n};")
            sites.append(("map", "nested", label, n))
            n += 1
            # a field NAMED like the alias under which a descendant package is imported into this module
            if pkg is not None and len(q) > len(pkg) and tuple(q[: len(pkg)]) == tuple(pkg):
                alias = "_".join(q[len(pkg):])
                if alias not in used_aliases:
                    used_aliases.add(alias)
                    lines.append(f"  {tm} {alias} = {n};")
                    sites.append(("field", "msg", label, n))
                    n += 1
        if full_sites:
            lines.append(f"  oneof pick_{label} {{")
            for kind, tname in KINDS:
                t = fq(q, tname.replace("Target", "Target" + tag).replace("Kind", "Kind" + tag))
                lines.append(f"    {t} o_{label}_{kind} = {n};")
                sites.append(("oneof", kind, label, n))
                n += 1
            lines.append("  }")
    for nm, t in WKT:
        lines.append(f"  .{t} wkt_{nm} = {n};")
        sites.append(("wkt", nm, "wkt", n))
        n += 1
    lines.append("}")
    lines.append(f"service {holder}Service {{")
    for label, q, tag in targets:
        lines.append(f"  rpc U{label}({fq(q, 'Target' + tag)}) returns ({fq(q, 'Target' + tag + '.Inner')});")
        lines.append(f"  rpc S{label}(stream {fq(q, 'Target' + tag + '.Inner')}) returns (stream {fq(q, 'Target' + tag)});")
    lines.append("  rpc Wkt(.google.protobuf.Empty) returns (.google.protobuf.StringValue);")
    # the well-known types the Holder ALSO has as fields (where they are unwrapped to datetime / timedelta / Optional[int])
    # used directly as rpc types: there they must stay the bundled message classes
    lines.append("  rpc WktTs(.google.protobuf.Timestamp) returns (.google.protobuf.Duration);")
    lines.append("  rpc WktW(.google.protobuf.Int32Value) returns (.google.protobuf.Timestamp);")
    lines.append("  rpc WktS(stream .google.protobuf.Duration) returns (stream .google.protobuf.Int32Value);")
    lines.append("}")
    return "\n".join(lines) + "\n", sites


def _unwrap(hint, site):
    args = getattr(hint, "__args__", None)
    if site == "repeated":
        return args[0] if args else None
    if site == "map":
        return args[1] if args and len(args) > 1 else None
    if site == "oneof" and args:  # Optional[...] in pydantic mode
        return next((a for a in args if a is not type(None)), None)
    return hint


def check_build(b: Build, importer, targets, sites, res: Result, w, rel_of):
    """targets: list of (label, pkg tuple, tag); rel_of: label -> relation class"""
    import betterproto
    import betterproto.lib.google.protobuf as glib
    from datetime import datetime, timedelta

    holder_full = fq(importer, "Holder")
    try:
        H = b.bp_class(holder_full)
        hints = hints_of(H)
    except Exception as e:
        res.violation("resolve", ["type-hints", "raised:" + type(e).__name__, "all"],
                      f"{holder_full}: resolving type hints raised {e!r}\n{traceback.format_exc()[-600:]}", w)
        return
    names = attr_names(H)
    tcls = {}
    for label, q, tag in targets:
        try:
            tcls[label] = {
                "msg": b.bp_class(fq(q, "Target" + tag)), "nested": b.bp_class(fq(q, "Target" + tag + ".Inner")),
                "enum": b.bp_enum(fq(q, "Kind" + tag)), "nested_enum": b.bp_enum(fq(q, "Target" + tag + ".Mode")),
                "deep": b.bp_class(fq(q, "Target" + tag + ".Inner.Deep")), "deep_enum": b.bp_enum(fq(q, "Target" + tag + ".Inner.Level")),
            }
        except BuildError as e:
            res.violation("resolve", ["target-class-missing", rel_of[label], "-"], f"{e}", w)
            return
    wkt_expect = {"ts": datetime, "du": timedelta, "empty": glib.Empty, "any": glib.Any, "mask": glib.FieldMask}
    for site, kind, label, num in sites:
        res.counters["sites_checked"] += 1
        nm = names.get(num)
        if nm is None or nm not in hints:
            res.violation("resolve", ["field-missing", site, kind], f"{holder_full} field {num} missing", w)
            continue
        got = _unwrap(hints[nm], site)
        if site == "wkt":
            if kind == "w32":
                ok = got == typing.Optional[int]
            else:
                ok = got is wkt_expect[kind]
            if not ok:
                res.violation("resolve", ["wkt", kind, "wrong-class"], f"{holder_full}.{nm} resolves to {got!r}", w)
            continue
        want = tcls[label][kind]
        if got is not want:
            res.violation("resolve", [site, kind, rel_of[label], "wrong-class"],
                          f"{holder_full}.{nm} ({site} of {kind}) resolves to {got!r} ({getattr(got, '__module__', '?')}), expected {want!r} ({want.__module__})", w)
            continue
        # round trip through the referencing field
        try:
            if kind in ("msg", "nested", "deep"):
                val = want(**{{"msg": "x", "nested": "y", "deep": "z"}[kind]: 5})
            else:
                val = want.try_value({"enum": 1, "nested_enum": 2, "deep_enum": 3}[kind])
            arg = [val] if site == "repeated" else ({"k": val} if site == "map" else val)
            m2 = H().parse(bytes(H(**{nm: arg})))
            back = getattr(m2, nm)
            back = back[0] if site == "repeated" else (back["k"] if site == "map" else back)
            if type(back) is not want or back != val:
                res.violation("roundtrip", [site, kind, rel_of[label], "wrong-type-after-parse"],
                              f"{holder_full}.{nm}: parsed value {back!r} of type {type(back)!r}, expected instance of {want!r}", w)
        except Exception as e:
            res.violation("roundtrip", [site, kind, rel_of[label], "raised:" + type(e).__name__], f"{holder_full}.{nm}: {e!r}", w)
    # rpc sites
    try:
        mod = b.module(".".join(importer))
        base = getattr(mod, "HolderServiceBase")
        mapping = base().__mapping__()
    except Exception as e:
        res.violation("resolve", ["rpc", "mapping-raised:" + type(e).__name__, "-"], f"{holder_full}Service: {e!r}", w)
        return
    pkgpart = ".".join(importer) + "." if importer else ""
    for label, q, tag in targets:
        for meth, req_kind, rep_kind in ((f"U{label}", "msg", "nested"), (f"S{label}", "nested", "msg")):
            res.counters["sites_checked"] += 2
            h = mapping.get(f"/{pkgpart}HolderService/{meth}")
            if h is None:
                res.violation("resolve", ["rpc", "route-missing", rel_of[label]], f"no handler for {meth}", w)
                continue
            if h.request_type is not tcls[label][req_kind]:
                res.violation("resolve", ["rpc-input", req_kind, rel_of[label], "wrong-class"],
                              f"{meth}: request_type {h.request_type!r}, expected {tcls[label][req_kind]!r}", w)
            if h.reply_type is not tcls[label][rep_kind]:
                res.violation("resolve", ["rpc-output", rep_kind, rel_of[label], "wrong-class"],
                              f"{meth}: reply_type {h.reply_type!r}, expected {tcls[label][rep_kind]!r}", w)
    h = mapping.get(f"/{pkgpart}HolderService/Wkt")
    if h is None or h.request_type is not glib.Empty or h.reply_type is not glib.StringValue:
        res.violation("resolve", ["rpc", "wkt", "wrong-class"], f"Wkt rpc types: {getattr(h, 'request_type', None)!r} {getattr(h, 'reply_type', None)!r}", w)
    for meth, want_req, want_rep in (("WktTs", glib.Timestamp, glib.Duration), ("WktW", glib.Int32Value, glib.Timestamp),
                                     ("WktS", glib.Duration, glib.Int32Value)):
        res.counters["sites_checked"] += 2
        h = mapping.get(f"/{pkgpart}HolderService/{meth}")
        if h is None or h.request_type is not want_req or h.reply_type is not want_rep:
            res.violation("resolve", ["rpc", "wkt-also-used-as-field", "wrong-class"],
                          f"{meth} rpc types: {getattr(h, 'request_type', None)!r} {getattr(h, 'reply_type', None)!r}, expected {want_req!r} {want_rep!r}", w)


def rpc_only_proto(r, q):
    """a package whose ONLY references to the importee are RPC inputs (first service) / RPC outputs (second)"""
    lines = ['syntax = "proto3";', f"package {'.'.join(r)};", 'import "q_defs.proto";', "message Here { int32 h = 1; }",
             "service OnlyIn {", f"  rpc U({fq(q, 'Target')}) returns (Here);", f"  rpc S(stream {fq(q, 'Target.Inner')}) returns (Here);", "}"]
    return "\n".join(lines) + "\n"


def rpc_out_proto(r, q):
    lines = ['syntax = "proto3";', f"package {'.'.join(r)};", 'import "q_defs.proto";', "message Here { int32 h = 1; }",
             "service OnlyOut {", f"  rpc U(Here) returns ({fq(q, 'Target')});", f"  rpc S(Here) returns (stream {fq(q, 'Target.Inner.Deep')});", "}"]
    return "\n".join(lines) + "\n"


def build_pair(p, q):
    p, q = tuple(p), tuple(q)
    protos = {"q_defs.proto": defs_proto(q)}
    text, sites = refs_proto(p, [("t", q, "")], ["q_defs.proto"])
    protos["p_refs.proto"] = text
    protos["r_in.proto"] = rpc_only_proto(p + ("rpcin",), q)
    protos["r_out.proto"] = rpc_out_proto(p + ("rpcout",), q)
    return protos, sites


def check_rpc_only(b, p, q, res: Result, w, rel):
    for pkg, svc, want in ((tuple(p) + ("rpcin",), "OnlyIn", {"U": ("req", "Target"), "S": ("req", "Target.Inner")}),
                           (tuple(p) + ("rpcout",), "OnlyOut", {"U": ("rep", "Target"), "S": ("rep", "Target.Inner.Deep")})):
        res.counters["sites_checked"] += 2
        try:
            mod = b.module(".".join(pkg))
            mapping = getattr(mod, svc + "Base")().__mapping__()
        except Exception as e:
            res.violation("resolve", ["rpc-only-package", svc, rel, "raised:" + type(e).__name__],
                          f"package {'.'.join(pkg)} whose only reference to {'.'.join(q) or '<root>'} is an RPC type: {e!r}", w)
            continue
        for meth, (side, tname) in want.items():
            h = mapping.get(f"/{'.'.join(pkg)}.{svc}/{meth}")
            got = None if h is None else (h.request_type if side == "req" else h.reply_type)
            if got is not b.bp_class(fq(q, tname)):
                res.violation("resolve", ["rpc-only-package", svc, rel, "wrong-class"], f"{'.'.join(pkg)}.{svc}/{meth}: {got!r}", w)


def run_pair(p, q, res: Result):
    w = {"kind": "pair", "p": list(p), "q": list(q)}
    rel = relation(tuple(p), tuple(q))
    res.counters["pairs"] += 1
    res.counters["relation:" + rel.split("(")[0]] += 1
    res.evaluations += 1
    res.distinct.add(f"{'.'.join(p)}->{'.'.join(q)}")
    protos, sites = build_pair(p, q)
    b = Build(protos)
    try:
        try:
            b.run_protoc()
        except BuildError as e:
            if e.stage == "protoc":
                res.inconclusive.append(f"protoc rejected the pair {p}->{q}: {e.detail[-300:]}")
            else:
                res.violation("generate", ["plugin-failed", rel, "-"], f"{p}->{q}: {e.detail[-800:]}", w)
            return
        b.load_descriptors()
        res.extra["plugin_reach"] = sorted(set(res.extra.get("plugin_reach", [])) | set(b.plugin_reach()))[:400]
        try:
            b.import_all()
        except BuildError as e:
            res.violation("import", ["generated-package-does-not-import", rel, "-"], f"{'.'.join(p) or '<root>'} -> {'.'.join(q) or '<root>'}: {e.detail[-900:]}", w)
            return
        check_build(b, tuple(p), [("t", tuple(q), "")], sites, res, w, {"t": rel})
        check_rpc_only(b, p, q, res, w, rel)
        for ev in b.plugin_events():
            if ev.get("ev") == "typeref" and "Target" in str(ev.get("source_type")) and len(res.extra.setdefault("typeref_samples", [])) < 12:
                res.extra["typeref_samples"].append({"package": ev["package"], "source_type": ev["source_type"], "result": ev["result"]})
        if len(res.samples) < 2:
            res.sample({"importer": ".".join(p) or "<root>", "importee": ".".join(q) or "<root>", "relation": rel, "sites": len(sites)})
    finally:
        pass  # modules stay imported for the rest of the shard on purpose (shared-process caches); dirs are removed
        import shutil

        shutil.rmtree(b.dir, ignore_errors=True)


def run_all(shard, res: Result):
    ps = [tuple(p) for p in shard["paths"]] if shard.get("paths") else paths(tuple(shard["alphabet"]), shard["max_depth"])
    rng = random.Random(shard["seed"])
    protos = {}
    labels = {p: "p" + "_".join(p) if p else "root" for p in ps}
    tags = {p: "X" + "".join(p).upper() for p in ps}
    for p in ps:
        protos[f"{labels[p]}_defs.proto"] = defs_proto(p, tags[p])
    all_sites = {}
    for p in ps:
        targets = [(labels[q], q, tags[q]) for q in ps]
        text, sites = refs_proto(p, targets, [f"{labels[q]}_defs.proto" for q in ps], full_sites=False)
        protos[f"{labels[p]}_refs.proto"] = text
        all_sites[p] = (targets, sites)
    w = {"kind": "all", "alphabet": shard.get("alphabet"), "max_depth": shard.get("max_depth"), "paths": shard.get("paths")}
    b = Build(protos)
    try:
        try:
            b.run_protoc(timeout=600)
        except BuildError as e:
            if e.stage == "protoc":
                res.inconclusive.append(f"protoc rejected the all-at-once set: {e.detail[-300:]}")
            else:
                res.violation("generate", ["plugin-failed", "all-at-once", "-"], e.detail[-800:], w)
            return
        b.load_descriptors()
        try:
            b.import_all()
        except BuildError as e:
            res.violation("import", ["generated-package-does-not-import", "all-at-once", "-"], e.detail[-900:], w)
            return
        res.counters["all_at_once_packages"] += len(ps)
        res.evaluations += 1
        res.distinct.add("all:" + str(shard.get("alphabet")) + str(shard.get("max_depth")) + str(len(ps)))
        for p in ps:
            targets, sites = all_sites[p]
            check_build(b, p, targets, sites, res, dict(w, importer=list(p)), {labels[q]: relation(p, q) for q in ps})
        res.sample({"all_at_once": f"{len(ps)} packages, each refers to every package; defs and refs in different files",
                    "files": len(protos)})
    finally:
        b.cleanup()


def run_shard(shard) -> Result:
    res = Result()
    try:
        if shard["kind"] == "pairs":
            for p, q in shard["pairs"]:
                run_pair(p, q, res)
        elif shard["kind"] == "layout":
            from .. import corpus
            from . import c03

            it = {"kind": "extra", "name": shard["name"]}
            before = len(res.violations)
            c03.run_program(corpus.item_protos(it), corpus.item_name(it), res, {"kind": "layout", "name": shard["name"]}, each_first=True)
            res.evaluations += 1
            res.distinct.add("layout:" + shard["name"])
            res.counters["layouts"] += 1
            res.counters["sites_checked"] += res.counters.pop("comparisons", 0)
            for k in [k for k in res.counters if k.startswith("feature")]:
                res.counters.pop(k)
            if res.discards.get("protoc-rejected-schema"):
                res.inconclusive.append(f"hand-written layout {shard['name']} rejected by protoc: {res.extra.get('discard_examples')}")
            # only what concerns references is C13's business
            keep = [v for v in res.violations[before:] if v["sub"] in ("import", "class", "generate") or (v["sub"] == "field" and v["sig"][0] == "python-type")]
            del res.violations[before:]
            for v in keep:
                v["sig"] = ["layout:" + shard["name"]] + v["sig"][:3]
                v["sub"] = "layout-" + v["sub"]
            res.violations.extend(keep)
        else:
            run_all(shard, res)
    except Exception as e:
        res.inconclusive.append(f"oracle crashed: {type(e).__name__}: {e}\n{traceback.format_exc()[-1500:]}")
    return res


def replay(w):
    res = Result()
    if w.get("kind") == "layout":
        return run_shard({"kind": "layout", "name": w["name"]}).violations
    if w.get("kind") == "pair":
        run_pair(w["p"], w["q"], res)
    else:
        run_all({"alphabet": w.get("alphabet"), "max_depth": w.get("max_depth"), "paths": w.get("paths"), "seed": 0}, res)
    return res.violations


RULE += " The holder's service also uses well-known types that the holder has as fields (Timestamp, Duration, Int32Value) directly as rpc types. Special paths include two seven-component packages that differ only in their first component. 'layout' shards: hand-written multi-file sets about references (import public inside the referencing package, package and root cycles, prefix packages, user messages named like a synthesized map entry)."
