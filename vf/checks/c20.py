"""C20 Enums are open, canonical and immutable."""
from __future__ import annotations

import os

import copy
import dataclasses
import json
import pickle
import random
import sys
import types
from typing import Dict, List, Optional

from .. import corpus, monitors
from ..build import BuildError
from ..core import Result

PROP = "C20"
LEVEL = "exploration"
RULE = ("seeded enum definitions (1..12 members over int32 incl. 0, negatives, gaps, int32 extremes, aliases incl. aliases "
        "of 0) created (a) by subclassing betterproto.Enum directly and (b) by the plugin from G-schema sets and the matrix "
        "schema. Oracle = the declaration itself and IntEnum alias semantics: lookup by number / by name / from_string "
        "returns the one canonical member (identity), name and number as declared, copy/deepcopy keep identity, pickle "
        "keeps name and number; every declared number, int32 boundaries and random undeclared numbers as field values in "
        "singular / optional / repeated / oneof / map-value position through bytes->parse and to_dict->json->from_dict keep "
        "their number and compare equal to the integer; mutation attempts on class and members must raise, and the "
        "observable state of the enum class (members, lookups incl. of undeclared numbers) must be the same before and "
        "after the whole workload. Member names include leading underscores / digits (what the plugin emits after prefix stripping); undeclared numbers are copied, deep-copied (alone and in containers) and pickled; repeated fields hold declared and undeclared numbers side by side; class attributes with private / dunder names are assignment targets too. distinct = distinct enum definitions x checked values.")
ASSUMPTIONS = [
    "lookup by call of an undeclared number raises ValueError (IntEnum semantics); only try_value / field positions are open",
    "'mutation' = attribute assignment / deletion on classes and members and item assignment on __members__ (not writes to private dicts)",
    "plugin-generated enums are identified by number, never by guessed member names (the plugin strips the enum-name prefix)",
]
FLOORS = {"quick": {"enum_definitions": 150, "field_roundtrips": 8000, "mutation_attempts": 1500},
          "thorough": {"enum_definitions": 8000, "field_roundtrips": 400000, "mutation_attempts": 80000}}
ANCHORS = ['EnumType.__new__', 'EnumType.__call__', 'Enum.try_value', 'Enum.from_string', 'Enum.__copy__', 'Enum.__setattr__', 'EnumType.__setattr__']
CONTRACTS = []

DYN = types.ModuleType("vf_dynenums")
sys.modules["vf_dynenums"] = DYN
_counter = [0]


def plan(tier, seed):
    n = 12 if tier == "quick" else 500
    shards = [{"kind": "direct", "seed": seed * 811 + i, "n": n} for i in range(16)]
    shards.append({"kind": "plugin", "item": {"kind": "matrix"}, "seed": seed})
    shards.append({"kind": "plugin", "item": {"kind": "features"}, "seed": seed})
    shards.append({"kind": "plugin", "item": {"kind": "features", "plugin_opts": "pydantic_dataclasses"}, "seed": seed})
    shards.append({"kind": "plugin", "item": {"kind": "matrix", "plugin_opts": "pydantic_dataclasses"}, "seed": seed})
    shards.append({"kind": "plugin", "item": {"kind": "extra", "name": "enum_only_pkg"}, "seed": seed})
    for i in range(8 if tier == "quick" else 150):
        shards.append({"kind": "plugin", "item": {"kind": "gen", "seed": seed * 100003 + i, "opts": {"services": False}}, "seed": seed + i})
    return shards


def gen_definition(rng):
    if rng.random() < 0.12:
        # a large enum: many members, numbered densely from 0 (what long generated enums look like), a few aliases, or with a
        # gap / starting at 1 / with one negative member
        n = rng.choice([31, 32, 33, 40, 64, 300])
        shape = rng.choice(["dense", "dense", "alias", "gap", "from1", "neg"])
        vals = [(f"V{i}", i) for i in range(n)]
        if shape == "alias":
            vals += [(f"A{i}", rng.randrange(n)) for i in range(4)] + [("AZ", 0)]
        elif shape == "gap":
            vals = [(nm, v if v < n // 2 else v + 1) for nm, v in vals]
        elif shape == "from1":
            vals = [(nm, v + 1) for nm, v in vals]
        elif shape == "neg":
            vals.append(("NEG", -1))
        return vals
    n = rng.randint(1, 12)
    style = rng.random()
    if style < 0.6:
        names = [f"V{i}" for i in range(n)]
    elif style < 0.8:  # what the plugin produces for VERSION_1 / VERSION_2_0 after stripping the enum-name prefix
        names = [f"_{i}" if i % 2 else f"_{i}_0" for i in range(n)]
    else:
        names = [rng.choice(["_A", "_b", "x", "X_", "lower", "mixedCase", "_9", "name_", "value_", "V"]) + str(i) for i in range(n)]
    rng.shuffle(names)
    vals = []
    used = []
    for i, nm in enumerate(names):
        r = rng.random()
        if i == 0 and rng.random() < 0.8:
            v = 0
        elif used and r < 0.25:
            v = rng.choice(used)  # alias (possibly of 0)
        elif r < 0.45:
            v = -rng.randint(1, 100)
        elif r < 0.55:
            v = rng.choice([2**31 - 1, -(2**31), 2**31 - 2, -(2**31) + 1])
        elif r < 0.65:
            v = rng.randint(-(2**31), 2**31 - 1)
        else:
            v = rng.randint(0, 30)
        used.append(v)
        vals.append((nm, v))
    return vals


def make_direct(defn):
    import betterproto

    _counter[0] += 1
    name = f"DynEnum{_counter[0]}"
    ns = {"__module__": "vf_dynenums", "__qualname__": name}
    for nm, v in defn:
        ns[nm] = v
    E = type(betterproto.Enum)(name, (betterproto.Enum,), ns)
    setattr(DYN, name, E)
    return E


def make_holder(E):
    """a message class with the enum in the five positions, built with the public field API"""
    import betterproto
    from typing import Dict as D, List as L, Optional as O

    _counter[0] += 1
    name = f"DynHolder{_counter[0]}"
    fields = [
        ("single", E, betterproto.enum_field(1)),
        ("opt", O[E], betterproto.enum_field(2, optional=True)),
        ("rep", L[E], betterproto.enum_field(3)),
        ("one_a", E, betterproto.enum_field(4, group="g")),
        ("one_b", str, betterproto.string_field(5, group="g")),
        ("by_key", D[str, E], betterproto.map_field(6, betterproto.TYPE_STRING, betterproto.TYPE_ENUM)),
    ]
    H = dataclasses.make_dataclass(name, fields, bases=(betterproto.Message,), eq=False, repr=False,
                                   namespace={"__module__": "vf_dynenums"})
    setattr(DYN, name, H)
    return H, {"singular": "single", "optional": "opt", "repeated": "rep", "oneof": "one_a", "mapvalue": "by_key"}


def canonical(defn):
    """number -> first declared name"""
    out = {}
    for nm, v in defn:
        out.setdefault(v, nm)
    return out


def snapshot(E, probes):
    st = {"len": len(E), "members": [(k, int(v), v.name) for k, v in E.__members__.items()]}
    looks = {}
    for p in probes:
        try:
            m = E(p)
            looks[p] = ("member", m.name, int(m))
        except ValueError:
            looks[p] = "ValueError"
        except Exception as e:
            looks[p] = "exc:" + type(e).__name__
    st["lookups"] = looks
    st["iter"] = [(m.name, int(m)) for m in E]
    return st


def def_class(defn_numbers):
    c = []
    if len(set(defn_numbers)) != len(defn_numbers):
        c.append("alias")
        if list(defn_numbers).count(0) > 1:
            c.append("alias-of-0")
    if any(v < 0 for v in defn_numbers):
        c.append("negative")
    return "+".join(c) or "plain"


def check_definition(E, names_by_number: Dict[int, List[str]], canon_name: Optional[Dict[int, str]], res: Result, w, dc):
    """names_by_number: python member names per declared number (None values = unknown names, plugin side)"""
    members = E.__members__
    numbers = sorted(names_by_number)
    for n in numbers:
        try:
            m = E(n)
        except Exception as e:
            res.violation("lookup", [dc, "by-number", "raised:" + type(e).__name__], f"{E.__name__}({n}) raised {e!r}", w)
            continue
        if int(m) != n or m.value != n or not (m == n):
            res.violation("lookup", [dc, "by-number", "wrong-number"], f"{E.__name__}({n}) has value {m.value!r}", w)
        if E.try_value(n) is not m:
            res.violation("lookup", [dc, "try_value", "not-canonical-object"], f"{E.__name__}.try_value({n}) is not {E.__name__}({n})", w)
        if m.name not in members or members[m.name] is not m:
            res.violation("lookup", [dc, "name", "canonical-name-not-a-member-name"], f"{E.__name__}({n}).name = {m.name!r}", w)
        if canon_name is not None and m.name != canon_name[n]:
            res.violation("lookup", [dc, "name", "not-first-declared-name"], f"{E.__name__}({n}).name = {m.name!r}, first declared {canon_name[n]!r}", w)
        for nm in names_by_number[n]:
            if nm is None:
                continue
            for how, fn in (("getitem", lambda: E[nm]), ("getattr", lambda: getattr(E, nm)), ("from_string", lambda: E.from_string(nm))):
                try:
                    x = fn()
                except Exception as e:
                    res.violation("lookup", [dc, "by-name:" + how, "raised:" + type(e).__name__], f"{E.__name__} {how} {nm!r}: {e!r}", w)
                    continue
                if x is not m:
                    res.violation("lookup", [dc, "by-name:" + how, "not-canonical-object"],
                                  f"{E.__name__} {how} {nm!r} is {x!r} (id differs from {E.__name__}({n}))", w)
        try:
            unp = pickle.loads(pickle.dumps(m))
            if E(unp) is not m:
                res.violation("lookup", [dc, "by-number:given-an-unpickled-member", "not-canonical-object"],
                              f"{E.__name__}(<unpickled {m.name}>) is not the canonical member", w)
        except Exception as e:
            res.violation("lookup", [dc, "by-number:given-an-unpickled-member", "raised:" + type(e).__name__], f"{E.__name__}: {e!r}", w)
        if copy.copy(m) is not m or copy.deepcopy(m) is not m:
            res.violation("copy", [dc, "identity-lost"], f"copy/deepcopy of {E.__name__}({n}) is a different object", w)
        for proto in range(0, pickle.HIGHEST_PROTOCOL + 1):
            try:
                p = pickle.loads(pickle.dumps(m, protocol=proto))
                if p.name != m.name or int(p) != n or p.value != n:
                    res.violation("pickle", [dc, "name-or-number-lost", f"protocol-{'0-1' if proto < 2 else '2+'}"],
                                  f"pickle (protocol {proto}) of {E.__name__}({n}) -> name {p.name!r} value {p.value!r}", w)
            except Exception as e:
                res.violation("pickle", [dc, "raised:" + type(e).__name__, f"protocol-{'0-1' if proto < 2 else '2+'}"],
                              f"pickle (protocol {proto}) of {E.__name__}({n}): {e!r}", w)
        res.counters["members_checked"] += 1
    distinct_objs = {id(v) for v in members.values()}
    if len(distinct_objs) != len(numbers):
        res.violation("lookup", [dc, "members", "object-count-differs-from-number-count"],
                      f"{E.__name__}: {len(distinct_objs)} distinct member objects for {len(numbers)} declared numbers", w)


def check_mutation(E, res: Result, w, dc):
    attempts = []
    some = next(iter(E.__members__)) if len(E) else None

    def expect_raise(label, fn):
        res.counters["mutation_attempts"] += 1
        try:
            fn()
        except (AttributeError, TypeError):
            return
        except Exception as e:
            res.counters["mutation_rejected_with:" + type(e).__name__] += 1
            return
        res.violation("mutation", [dc, label, "succeeded"], f"{E.__name__}: {label} did not raise", w)

    if some:
        m = E[some]
        expect_raise("class-setattr-member", lambda: setattr(E, some, 12345))
        expect_raise("class-delattr-member", lambda: delattr(E, some))
        expect_raise("member-set-name", lambda: setattr(m, "name", "HACK"))
        expect_raise("member-set-value", lambda: setattr(m, "value", 99))
        expect_raise("member-del-name", lambda: delattr(m, "name"))
        expect_raise("member-set-new-attr", lambda: setattr(m, "extra", 1))
        expect_raise("members-proxy-setitem", lambda: E.__members__.__setitem__("NEW", m))
        expect_raise("members-proxy-delitem", lambda: E.__members__.__delitem__(some))
    expect_raise("class-setattr-new", lambda: setattr(E, "BRAND_NEW", 7))
    # every attribute assignment on the class is an attempt to mutate it, whatever the name looks like
    expect_raise("class-setattr-private", lambda: setattr(E, "_private", 7))
    expect_raise("class-setattr-value-map", lambda: setattr(E, "_value_map_", {}))
    expect_raise("class-setattr-member-map", lambda: setattr(E, "_member_map_", {}))
    expect_raise("class-setattr-dunder-eq", lambda: setattr(E, "__eq__", lambda a, b: True))
    expect_raise("class-setattr-dunder-hash", lambda: setattr(E, "__hash__", None))
    expect_raise("class-delattr-private", lambda: delattr(E, "_value_map_"))
    expect_raise("class-delattr-new", lambda: delattr(E, "try_value"))
    und = E.try_value(123456789)
    expect_raise("undeclared-set-name", lambda: setattr(und, "name", "HACK"))


def check_fields(E, H, attrs, values, declared, res: Result, w, dc):
    """numbers through bytes and JSON in the five positions"""
    for v in values:
        vc = ("declared" if v in declared else "undeclared") + ("-neg" if v < 0 else "")
        for pos, attr in attrs.items():
            for as_ in ("member", "int"):
                val = E.try_value(v) if as_ == "member" else v
                kw = {attr: [val, val] if pos == "repeated" else ({"k": val} if pos == "mapvalue" else val)}
                ww = dict(w, value=v, pos=pos, as_=as_)
                res.counters["field_roundtrips"] += 1
                try:
                    m = H(**kw)
                    data = bytes(m)
                    back = getattr(H().parse(data), attr)
                except Exception as e:
                    res.violation("binary", [dc, pos, vc, as_, "raised:" + type(e).__name__], f"{E.__name__} value {v} in {pos}: {e!r}", ww)
                    continue
                if len(m) != len(data):
                    res.violation("binary", [dc, pos, vc, as_, "len-differs-from-encoding"], f"{E.__name__} value {v} in {pos}: len(m)={len(m)} len(bytes(m))={len(data)}", ww)
                got = back[1] if pos == "repeated" else (back["k"] if pos == "mapvalue" else back)
                if not isinstance(got, int) or int(got) != v or not (got == v):
                    res.violation("binary", [dc, pos, vc, as_, "number-changed"], f"{E.__name__} value {v} in {pos} came back as {got!r}", ww)
                elif v in declared and got is not E(v):
                    res.violation("binary", [dc, pos, vc, as_, "decoded-member-not-canonical"], f"{E.__name__} value {v} in {pos} decoded to a non-canonical object {got!r}", ww)
                if pos == "mapvalue":
                    continue  # map values on the JSON path: not converted (C04/C05 known findings)
                try:
                    text = json.dumps(m.to_dict())
                    back = getattr(H().from_dict(json.loads(text)), attr)
                except Exception as e:
                    res.violation("json", [dc, pos, vc, as_, "raised:" + type(e).__name__], f"{E.__name__} value {v} in {pos}: {e!r}", ww)
                    continue
                got = back[1] if pos == "repeated" else back
                if got is None and pos == "singular" and v == 0:
                    continue
                if not isinstance(got, int) or int(got) != v:
                    res.violation("json", [dc, pos, vc, as_, "number-changed"], f"{E.__name__} value {v} in {pos} came back from JSON as {got!r} ({text})", ww)


def check_mixed_lists(E, H, attrs, declared, und, res: Result, w, dc):
    """repeated enum fields holding declared and undeclared numbers side by side, in both orders, through bytes and JSON"""
    if not declared or not und:
        return
    attr = attrs["repeated"]
    d0, u0 = declared[0], und[0]
    for order, nums in (("declared-first", [d0, u0, declared[-1]]), ("undeclared-first", [u0, d0, und[-1]]),
                        ("alternating", [d0, u0, d0, u0])):
        ww = dict(w, mixed=nums)
        res.counters["field_roundtrips"] += 1
        try:
            m = H(**{attr: [E.try_value(v) for v in nums]})
            back = [int(x) for x in getattr(H().parse(bytes(m)), attr)]
        except Exception as e:
            res.violation("binary", [dc, "repeated-mixed", order, "member", "raised:" + type(e).__name__], f"{E.__name__} {nums}: {e!r}", ww)
            continue
        if back != nums:
            res.violation("binary", [dc, "repeated-mixed", order, "member", "number-changed"], f"{E.__name__} {nums} came back as {back}", ww)
        try:
            text = json.dumps(m.to_dict())
            backj = [int(x) for x in getattr(H().from_dict(json.loads(text)), attr)]
        except Exception as e:
            res.violation("json", [dc, "repeated-mixed", order, "member", "raised:" + type(e).__name__], f"{E.__name__} {nums} via JSON: {e!r}", ww)
            continue
        if backj != nums:
            res.violation("json", [dc, "repeated-mixed", order, "member", "number-changed"], f"{E.__name__} {nums} came back from JSON as {backj} ({text})", ww)


def run_enum(E, H, attrs, names_by_number, canon_name, rng, res: Result, w):
    declared = sorted(names_by_number)
    dc = def_class([n for n, ns in names_by_number.items() for _ in ns])
    und = []
    n_decl = len(declared)
    for c in (max(declared) + 1, min(declared) - 1, 2**31 - 1, -(2**31), rng.randint(-(2**31), 2**31 - 1), rng.randint(-1000, 1000),
              -1, -n_decl, -n_decl - 1, -rng.randint(1, max(1, n_decl)), n_decl, 2 * n_decl):
        if c not in declared and -(2**31) <= c <= 2**31 - 1 and c not in und:
            und.append(c)
    probes = declared + und
    before = snapshot(E, probes)
    res.counters["enum_definitions"] += 1
    res.evaluations += 1
    res.distinct.add(json.dumps([sorted((k, [x for x in v if x]) for k, v in names_by_number.items())]))
    check_definition(E, names_by_number, canon_name, res, w, dc)
    for u in und:
        try:
            r = E(E.try_value(u))
            res.violation("lookup", [dc, "by-number:given-a-placeholder", "undeclared-number-accepted-by-call"],
                          f"{E.__name__}(try_value({u})) returned {r!r}; lookup by call of an undeclared number raises ValueError", w)
        except ValueError:
            pass
        except Exception as e:
            res.violation("lookup", [dc, "by-number:given-a-placeholder", "raised:" + type(e).__name__], f"{E.__name__}(try_value({u})): {e!r}", w)
        t = E.try_value(u)
        if not isinstance(t, E) or int(t) != u or not (t == u) or t.name is not None:
            res.violation("open", [dc, "try_value", "undeclared-not-accepted-as-is"], f"{E.__name__}.try_value({u}) = {t!r} name={getattr(t, 'name', '?')!r}", w)
        # an undeclared number is accepted wherever a member is: it can be copied, deep-copied (alone and inside
        # containers) and pickled like one
        for how, fn in (("copy", lambda: copy.copy(t)), ("deepcopy", lambda: copy.deepcopy(t)), ("deepcopy-in-list", lambda: copy.deepcopy([t, t])[1]),
                        ("deepcopy-in-dict", lambda: copy.deepcopy({"k": t})["k"]), ("pickle", lambda: pickle.loads(pickle.dumps(t)))):
            try:
                c = fn()
                if int(c) != u or not isinstance(c, E) or getattr(c, "name", "?") is not None:
                    res.violation("open", [dc, how, "undeclared-number-changed"], f"{E.__name__}: {how} of try_value({u}) gives {c!r}", w)
            except Exception as e:
                res.violation("open", [dc, how, "undeclared-raised:" + type(e).__name__], f"{E.__name__}: {how} of try_value({u}): {e!r}", w)
    if H is not None:
        check_fields(E, H, attrs, declared + und, set(declared), res, w, dc)
        check_mixed_lists(E, H, attrs, declared, und, res, w, dc)
    check_mutation(E, res, w, dc)
    after = snapshot(E, probes)
    if after != before:
        diff = [k for k in before if before[k] != after[k]]
        detail = ""
        if "lookups" in diff:
            ch = [p for p in probes if before["lookups"][p] != after["lookups"][p]]
            detail = f" lookups changed for {ch[:3]}: {before['lookups'][ch[0]]} -> {after['lookups'][ch[0]]}"
        res.violation("immutable", [dc, "class-state-changed", "+".join(diff)],
                      f"{E.__name__}: observable state of the enum class changed during the workload ({diff}){detail}", w)
    if len(res.samples) < 2:
        res.sample({"enum": E.__name__, "declared": {str(k): v for k, v in list(names_by_number.items())[:6]}, "undeclared_probed": und[:4]})


def _generated_messages(b, res: Result, w):
    """enum-typed fields of the GENERATED messages (every label): boundary numbers go through the generated constructor
    (under pydantic that validates), and a decoded value is an instance of the class generated for the field's own enum"""
    from ..values import attr_names, enum_bounds

    for mi in b.user_messages():
        cls = b.bp_class(mi.full_name)
        names = attr_names(cls)
        for fi in mi.fields:
            inner = fi.map_value if fi.label == "map" else fi
            if inner.kind != "enum" or fi.number not in names:
                continue
            try:
                E = b.bp_enum(inner.type_name)
            except Exception:
                continue
            for v in enum_bounds(b, inner.type_name):
                val = E.try_value(v)
                kw = {names[fi.number]: [val] if fi.label == "repeated" else ({(1 if fi.map_key.kind != "string" else "k") if fi.map_key.kind != "bool" else True: val} if fi.label == "map" else val)}
                res.counters["generated_enum_fields"] += 1
                ww = dict(w, msg=mi.full_name, field=fi.name, value=v)
                vc = ("declared" if v in b.enums[inner.type_name].numbers else "undeclared") + ("-neg" if v < 0 else "")
                try:
                    m = cls(**kw)
                    back = getattr(cls().parse(bytes(m)), names[fi.number])
                except Exception as e:
                    res.violation("binary", ["generated-message", fi.label, vc, "member", "raised:" + type(e).__name__],
                                  f"{mi.full_name}.{fi.name} = {v}: {e!r}", ww)
                    continue
                got = back[0] if fi.label == "repeated" else (next(iter(back.values())) if fi.label == "map" else back)
                if int(got) != v:
                    res.violation("binary", ["generated-message", fi.label, vc, "member", "number-changed"], f"{mi.full_name}.{fi.name} = {v} came back as {got!r}", ww)
                elif type(got) is not E:
                    res.violation("binary", ["generated-message", fi.label, vc, "member", "decoded-into-another-enum-class"],
                                  f"{mi.full_name}.{fi.name}: decoded value is a {type(got).__module__}.{type(got).__name__}, the field's enum is {E.__module__}.{E.__name__}", ww)


def run_shard(shard) -> Result:
    res = Result()
    rng = random.Random(f"c20-{shard['seed']}")
    monitors.install(CONTRACTS)
    if shard["kind"] == "direct":
        import betterproto  # noqa

        for _ in range(shard["n"]):
            defn = shard.get("defn") or gen_definition(rng)
            w = {"kind": "direct", "defn": defn}
            try:
                E = make_direct(defn)
                H, attrs = make_holder(E)
            except Exception as e:
                res.violation("define", ["direct", "raised:" + type(e).__name__], f"defining enum {defn}: {e!r}", w)
                continue
            nbn: Dict[int, List[str]] = {}
            for nm, v in defn:
                nbn.setdefault(v, []).append(nm)
            try:
                run_enum(E, H, attrs, nbn, canonical(defn), rng, res, w)
            except Exception as e:
                # an exception that comes out of the tree under test at a place where the monitors expect none (an undeclared
                # number refused by try_value, for example) is an observation about the SUT, not a harness failure
                import traceback as _tb

                from .. import env as _env

                frames = _tb.extract_tb(e.__traceback__)
                if frames and os.path.realpath(frames[-1].filename).startswith(os.path.realpath(_env.SRC)):
                    res.violation("open", ["direct", "library-raised:" + type(e).__name__, frames[-1].name],
                                  f"enum {defn}: {type(e).__name__}: {e} (raised in {frames[-1].name})", w)
                else:
                    raise
        return res
    try:
        b = corpus.build_item(shard["item"])
    except BuildError as e:
        res.inconclusive.append(f"SUT could not be built: {e.stage}: {e.detail[-400:]}")
        return res
    try:
        from ..values import attr_names

        for full, ei in b.enums.items():
            if full.startswith(".google.protobuf."):
                continue
            w = {"kind": "plugin", "item": shard["item"], "enum": full}
            try:
                E = b.bp_enum(full)
            except BuildError as e:
                res.violation("define", ["plugin", "class-missing"], f"{full}: {e}", w)
                continue
            nbn = {}
            for nm, v in ei.values:
                nbn.setdefault(v, []).append(None)
            # python names: recover by number through __members__ (names are the plugin's choice)
            for nm, m in E.__members__.items():
                if int(m) in nbn:
                    lst = nbn[int(m)]
                    if None in lst:
                        lst[lst.index(None)] = nm
                    else:
                        lst.append(nm)
                else:
                    res.violation("define", ["plugin", "extra-member"], f"{full}: member {nm}={int(m)} not in the schema", w)
            missing = [v for v, names in nbn.items() if all(x is None for x in names)]
            if missing:
                res.violation("define", ["plugin", "declared-number-missing"], f"{full}: numbers {missing} have no member", w)
                continue
            # a holder: first message that uses this enum in a singular field (generated), else a direct holder
            H, attrs = make_holder(E)
            run_enum(E, H, attrs, nbn, None, rng, res, w)
        _generated_messages(b, res, {"kind": "plugin", "item": shard["item"]})
    finally:
        b.cleanup()
    return res


def replay(w):
    if w.get("kind") == "direct":
        r = run_shard({"kind": "direct", "seed": 0, "n": 1, "defn": [tuple(x) for x in w["defn"]]})
    else:
        r = run_shard({"kind": "plugin", "item": w["item"], "seed": 0})
    return r.violations


RULE += ' Large dense enums (31..300 members, with aliases / a gap / starting at 1 / one negative member) and undeclared probes -1, -n, -n-1 and a random number in [-n, -1].'
