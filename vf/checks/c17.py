"""C17 Malformed or truncated input is rejected or isolated, never mis-decoded."""
from __future__ import annotations

import random

from .. import spec
from ..core import Result
from ..valuework import plan_items, replay_value, run_value_shard
from ..values import diff_signature, diff_trees

PROP = "C17"
LEVEL = "fault_enumeration"
RULE = ("valid encodings (google.protobuf serialisations of matrix / random / maximal value trees) x (1) ALL truncation "
        "points: a cut inside a top-level record (boundaries from the spec codec) must be rejected; (2) single-byte "
        "corruption of every tag byte and length byte: decoding must terminate and raise or return a message whose "
        "fields have their declared Python types and that re-encodes; (3) the complete declared kind/label x substituted "
        "wire type matrix on each field of the type (wire types 0,1,2,5 with well-formed payloads, 3/4 as a well-formed "
        "group, 6 and 7): a non-fitting occurrence must be kept verbatim as an unknown field and must not change any "
        "known field; 6/7 and field number 0 must be rejected; a group wrapping records of known fields must not alter "
        "them; (4) random byte strings. Also: cuts inside records the schema does not decode, ragged packed payloads (fixed width and varint), invalid UTF-8, malformed content inside groups, a non-fitting occurrence right after a fitting one, tags beyond 32 bits, corrupted frames through the sized loader (must raise or consume exactly the announced size). google.protobuf's accept/reject decision is recorded per class. "
        "distinct = distinct (type, malformed bytes) inputs.")
ASSUMPTIONS = [
    "record boundaries of the valid encoding come from the independent spec-level codec",
    "a non-terminating decode is caught by the per-shard watchdog and reported as inconclusive",
    "ruff is replaced by an identity stand-in when the plugin formats its output",
]
FLOORS = {"quick": {"decodes": 40000, "truncations": 15000, "wiretype_cells": 1500},
          "thorough": {"decodes": 2000000, "truncations": 800000, "wiretype_cells": 50000}}
ANCHORS = ['load_fields', 'Message.load', 'Message._postprocess_single']
CONTRACTS = []


def plan(tier, seed):
    return plan_items(tier, seed, n_gen_quick=6, n_gen_thorough=150, n_quick=60, n_thorough=500, with_inputs=False)


def _decode(b, bp, mi, cls, data: bytes):
    """('raised', exc-name) | ('ok', message, tree, problems, reencoded|None, reencode-exc)"""
    try:
        m = cls().parse(data)
    except RecursionError as e:
        return ("raised", "RecursionError")
    except Exception as e:
        return ("raised", type(e).__name__)
    problems = []
    try:
        tree = bp.norm(mi, m, problems)
    except Exception as e:
        return ("ok", m, None, [("", f"unreadable:{type(e).__name__}")], None, None)
    try:
        re_ = bytes(m)
        rexc = None
    except Exception as e:
        re_, rexc = None, type(e).__name__
    return ("ok", m, tree, problems, re_, rexc)


def _ref_accepts(rcls, data: bytes) -> bool:
    try:
        rcls.FromString(data)
        return True
    except Exception:
        return False


def _fits(fi, wt: int) -> bool:
    if fi.label == "map":
        return wt == spec.WT_LEN
    if fi.kind == "message":
        return wt == spec.WT_LEN
    natural = spec.wire_type_of(fi.kind)
    if wt == natural:
        return True
    if fi.label == "repeated" and fi.kind in spec.PACKABLE and wt == spec.WT_LEN:
        return True
    return False


def _payload_for(wt: int, number: int, rng) -> bytes:
    if wt == 0:
        return spec.enc_tag(number, 0) + spec.enc_varint(rng.choice([1, 0, 300, 2**64 - 1]))
    if wt == 1:
        return spec.enc_tag(number, 1) + bytes([1, 2, 3, 4, 5, 6, 7, 8])
    if wt == 2:
        return spec.enc_tag(number, 2) + rng.choice([b"\x03abc", b"\x00", b"\x02\x08\x01", b"\x04\x0a\x02\x08\x01"])
    if wt == 5:
        return spec.enc_tag(number, 5) + bytes([9, 8, 7, 6])
    if wt == 3:
        return spec.enc_tag(number, 3) + spec.enc_tag(number, 4)
    return spec.enc_tag(number, wt)


def check_case(b, bp, ref, mi, tree, res: Result, w, rng):
    cls = b.bp_class(mi.full_name)
    rcls = b.ref_class(mi.full_name)
    e0 = ref.make(mi, tree).SerializeToString()
    recs = spec.read_records(e0)
    base = _decode(b, bp, mi, cls, e0)
    if base[0] != "ok" or base[2] is None:
        res.note("valid-encoding-not-decoded")  # C02 territory
        return
    base_tree = base[2]
    only = w.get("mal")

    def judge_generic(data: bytes, cls_label: str, ww):
        """obligation (a): terminate; raise or typed + re-encodable"""
        res.note("decodes")
        res.distinct.add(f"{mi.full_name}:{hash(data)}")
        out = _decode(b, bp, mi, cls, data)
        racc = _ref_accepts(rcls, data)
        if out[0] == "raised":
            res.note(f"outcome:{cls_label}:raised/ref-{'accepts' if racc else 'rejects'}")
            return out
        res.note(f"outcome:{cls_label}:returned/ref-{'accepts' if racc else 'rejects'}")
        for p, what in out[3]:
            fi = _field_at(b, mi, p)
            res.violation("typed", [cls_label, fi.cls_key() if fi else "?", what],
                          f"{mi.full_name}{p}: decoded value has wrong type ({what}) for input {data.hex()[:200]}", ww)
        if out[5] is not None:
            res.violation("reencodable", [cls_label, "bytes-raised:" + out[5]],
                          f"{mi.full_name}: message decoded from {data.hex()[:200]} cannot be encoded again ({out[5]})", ww)
        return out

    def _judge_framed(data: bytes, ww):
        """the same corrupted bytes arriving as one frame of a size-delimited stream, followed by a healthy frame: the
        sized loader must raise or return a usable message having consumed EXACTLY the announced size -- a corrupted
        inner length must not make it read into the next frame"""
        import io as _io

        import betterproto

        follow = spec.enc_varint(len(e0)) + e0
        frame = spec.enc_varint(len(data)) + data
        st = _io.BytesIO(frame + follow)
        res.note("framed_decodes")
        try:
            m = cls().load(st, betterproto.SIZE_DELIMITED)
        except Exception:
            res.note("outcome:framed:raised")
            return
        res.note("outcome:framed:returned")
        if st.tell() != len(frame):
            res.violation("sized-load-overrun", ["corrupt-len", "consumed-other-than-announced-size"],
                          f"{mi.full_name}: load(SIZE_DELIMITED) of a frame announcing {len(data)} bytes returned after consuming {st.tell() - spec.varint_len(len(data))}; "
                          f"frame {data.hex()[:160]}", ww)
            return
        try:
            bytes(m)
        except Exception as e:
            res.violation("reencodable", ["corrupt-len-framed", "bytes-raised:" + type(e).__name__], f"{mi.full_name}: {e!r}; frame {data.hex()[:160]}", ww)

    # (1) truncations ------------------------------------------------------
    if only in (None, "cut"):
        boundaries = {0} | {r.end for r in recs}
        cut_list = range(1, len(e0)) if len(e0) <= 300 else sorted(set(list(range(1, 120)) + [rng.randrange(1, len(e0)) for _ in range(150)]))
        if only == "cut":
            cut_list = [w["cut"]]
        for c in cut_list:
            data = e0[:c]
            res.note("truncations")
            ww = dict(w, mal="cut", cut=c)
            if c in boundaries:
                judge_generic(data, "cut-at-record-boundary", ww)
                continue
            rec = next(r for r in recs if r.start < c < r.end)
            where = "in-tag" if c < rec.payload_start - (spec.varint_len(len(rec.value)) if rec.wt == 2 else 0) else (
                "in-length" if rec.wt == 2 and c < rec.payload_start else "in-payload")
            out = judge_generic(data, "cut-mid-record", ww)
            if out[0] == "ok":
                fi = next((f for f in mi.fields if f.number == rec.number), None)
                res.violation("truncation-accepted", ["cut-mid-record", f"wt{rec.wt}", where],
                              f"{mi.full_name}: prefix {c}/{len(e0)} cuts field {rec.number} ({fi.cls_key() if fi else '?'}) {where} but parse returned a message; input {data.hex()[:200]}", ww)

    # (2) byte corruption of tags and lengths ----------------------------------
    if only in (None, "corrupt"):
        positions = []
        for r in recs[:40]:
            tl = spec.varint_len((r.number << 3) | r.wt)
            positions += [(r.start + i, "tag") for i in range(tl)]
            if r.wt == 2:
                positions += [(i, "len") for i in range(r.start + tl, r.payload_start)]
        if only == "corrupt":
            positions = [(w["pos"], w["what"])]
        for pos, what in positions:
            vals = [w["val"]] if only == "corrupt" else [e0[pos] ^ 0x01, e0[pos] ^ 0x80, e0[pos] ^ 0x07, 0xFF, 0x00, (e0[pos] + 8) & 0xFF]
            for v in vals:
                if v == e0[pos]:
                    continue
                data = e0[:pos] + bytes([v]) + e0[pos + 1:]
                judge_generic(data, "corrupt-" + what, dict(w, mal="corrupt", pos=pos, val=v, what=what))
                if what == "len":
                    _judge_framed(data, dict(w, mal="corrupt", pos=pos, val=v, what=what))

    # (3) wire-type substitution matrix (once per message type: on the empty and the maximal value)
    if (only is None and w.get("tag") in ("empty", "maximal")) or only == "wt":
        for fi in mi.fields:
            if only == "wt" and fi.number != w["number"]:
                continue
            for wt in ([w["wt"]] if only == "wt" else [0, 1, 2, 5, 3, 6, 7]):
                if wt in (0, 1, 2, 5, 3) and _fits(fi, wt):
                    continue
                bogus = _payload_for(wt, fi.number, rng)
                for place in (["end", "start"] if only != "wt" else [w["place"]]):
                    data = e0 + bogus if place == "end" else bogus + e0
                    ww = dict(w, mal="wt", number=fi.number, wt=wt, place=place, bogus=bogus.hex())
                    res.note("wiretype_cells")
                    out = judge_generic(data, f"wiretype-{wt}", ww)
                    sig0 = [fi.cls_key(), f"wt{wt}"]
                    if wt in (6, 7):
                        if out[0] == "ok":
                            res.violation("invalid-wiretype-accepted", sig0 + ["accepted"],
                                          f"{mi.full_name}: record with wire type {wt} on field {fi.number} was accepted; input {data.hex()[:160]}", ww)
                        continue
                    if out[0] == "raised":
                        res.violation("mismatch-not-isolated", sig0 + ["raised:" + out[1]],
                                      f"{mi.full_name}: field {fi.number} ({fi.cls_key()}) arriving with wire type {wt} made parse raise {out[1]} instead of being kept as an unknown field; input {data.hex()[:160]}", ww)
                        continue
                    if out[2] is not None:
                        ds = diff_trees(b, mi, base_tree, out[2])
                        if ds:
                            res.violation("mismatch-alters-known", sig0 + ["known-field-changed"],
                                          f"{mi.full_name}: field {fi.number} ({fi.cls_key()}) with wire type {wt} changed known fields: {ds[0].short()}; input {data.hex()[:160]}", ww)
                            continue
                    if out[4] is not None and bogus not in out[4]:
                        res.violation("mismatch-not-kept", sig0 + ["not-re-emitted-verbatim"],
                                      f"{mi.full_name}: non-fitting record {bogus.hex()} for field {fi.number} ({fi.cls_key()}) is not re-emitted verbatim: {out[4].hex()[:160]}", ww)

    # (3b) a non-fitting occurrence DIRECTLY AFTER a fitting occurrence of the same field (the per-field decision must
    # be taken per occurrence), and tags whose varint exceeds 32 bits with low bits that look like a known field
    if (only is None and w.get("tag") in ("empty", "maximal")) or only in ("wtseq", "bigtag"):
        for fi in mi.fields:
            if fi.label == "map" or (fi.kind == "message" and fi.wkt is None and fi.label != "repeated"):
                continue
            if only in ("wtseq", "bigtag") and fi.number != w.get("number"):
                continue
            if only != "bigtag":
                good_wt = 2 if (fi.kind in ("message", "string", "bytes") or fi.wkt) else spec.wire_type_of(fi.kind)
                if fi.kind == "message" or fi.wkt:
                    continue  # a fitting message payload needs a valid sub-encoding: left to the matrix above
                good = _payload_for(good_wt, fi.number, rng) if good_wt != 2 else spec.enc_tag(fi.number, 2) + b"\x02ok"
                for wt in (0, 1, 2, 5):
                    if _fits(fi, wt):
                        continue
                    bogus = _payload_for(wt, fi.number, rng)
                    data = good + bogus + good
                    ww = dict(w, mal="wtseq", number=fi.number, wt=wt)
                    res.note("wiretype_sequences")
                    only_good = _decode(b, bp, mi, cls, good + good)
                    out = judge_generic(data, f"wiretype-seq-{wt}", ww)
                    if out[0] == "raised":
                        if only_good[0] == "ok":
                            res.violation("mismatch-not-isolated", [fi.cls_key(), f"wt{wt}", "after-fitting-occurrence:raised:" + out[1]],
                                          f"{mi.full_name}: field {fi.number} fitting, then wire type {wt}, then fitting again made parse raise {out[1]}; input {data.hex()[:160]}", ww)
                        continue
                    if only_good[0] == "ok" and out[2] is not None and only_good[2] is not None and diff_trees(b, mi, only_good[2], out[2]):
                        ds = diff_trees(b, mi, only_good[2], out[2])
                        res.violation("mismatch-alters-known", [fi.cls_key(), f"wt{wt}", "after-fitting-occurrence"],
                                      f"{mi.full_name}: a non-fitting occurrence (wire type {wt}) right after a fitting one of field {fi.number} changed it: {ds[0].short()}; input {data.hex()[:160]}", ww)
            # tag varints beyond 32 bits: the number is not a legal field number; whatever the decoder does, it must not
            # land in a known field
            if only != "wtseq" and fi.number < 2**28:
                for hi in (1 << 29, 1 << 31, 1 << 40):
                    wt0 = 2 if (fi.kind in ("message", "string", "bytes") or fi.wkt or fi.label == "map") else spec.wire_type_of(fi.kind)
                    body = _payload_for(wt0, 1, rng)[1:] if wt0 != 2 else b"\x03bad"
                    data = e0 + spec.enc_varint(((hi + fi.number) << 3) | wt0) + body
                    ww = dict(w, mal="bigtag", number=fi.number, hi=hi)
                    res.note("oversized_tags")
                    out = judge_generic(data, "oversized-tag", ww)
                    if out[0] == "ok" and out[2] is not None:
                        ds = diff_trees(b, mi, base_tree, out[2])
                        if ds:
                            res.violation("mismatch-alters-known", [fi.cls_key(), "oversized-tag", "known-field-changed"],
                                          f"{mi.full_name}: a record whose field number is {hi}+{fi.number} (not a legal number) changed known fields: {ds[0].short()}; input {data.hex()[:200]}", ww)

    # (4) field number 0 and groups around known fields ---------------------------
    if only in (None, "zero"):
        for wt in (0, 2):
            bogus = spec.enc_varint(wt) + (b"\x01" if wt == 0 else b"\x01a")
            data = e0 + bogus
            ww = dict(w, mal="zero", wt=wt)
            out = judge_generic(data, "field-number-0", ww)
            if out[0] == "ok":
                res.violation("field-zero-accepted", [f"wt{wt}", "accepted"],
                              f"{mi.full_name}: a record with field number 0 was accepted; input {data.hex()[:160]}", ww)
    if ((only is None and w.get("tag") in ("empty", "maximal", "matrix")) or only == "group") and recs:
        unknown_no = max([f.number for f in mi.fields] + [0]) + 1
        if unknown_no < 2**29:
            # a group (unknown number) that wraps copies of genuine records of known fields with OTHER values
            inner = b"".join(_payload_for(spec.wire_type_of(f.kind) if f.kind != "message" and f.label not in ("map",) else 2, f.number, rng)
                             for f in mi.fields[:4])
            grp = spec.enc_tag(unknown_no, 3) + inner + spec.enc_tag(unknown_no, 4)
            for place in ("end", "start"):
                data = e0 + grp if place == "end" else grp + e0
                ww = dict(w, mal="group", place=place)
                out = judge_generic(data, "group", ww)
                if out[0] == "ok" and out[2] is not None:
                    ds = diff_trees(b, mi, base_tree, out[2])
                    if ds:
                        res.violation("group-alters-known", ["group", ds[0].fi.cls_key() if ds[0].fi else "?", "known-field-changed"],
                                      f"{mi.full_name}: a proto2 group of unknown field {unknown_no} changed known fields: {ds[0].short()}; input {data.hex()[:200]}", ww)

    # (4a) malformed content INSIDE a group is malformed input as well: field number 0, wire types 6/7, a group that is
    # never closed or closed by another number, a record cut inside the group
    if (only is None and w.get("tag") in ("empty", "maximal", "matrix")) or only == "badgroup":
        unknown_no = max([f.number for f in mi.fields] + [0]) + 1
        if unknown_no < 2**29 - 1:
            st, en = spec.enc_tag(unknown_no, 3), spec.enc_tag(unknown_no, 4)
            good = spec.enc_record(1, 0, 5)
            bads = {
                "field-0-varint": st + b"\x00\x05" + en,
                "field-0-len": st + good + b"\x02\x01a" + en,
                "wire-type-6": st + spec.enc_varint((1 << 3) | 6) + en,
                "wire-type-7": st + good + spec.enc_varint((2 << 3) | 7) + en,
                "never-closed": st + good,
                "closed-by-other-number": st + good + spec.enc_tag(unknown_no + 1, 4),
                "cut-inside": st + spec.enc_tag(1, 2) + b"\x05ab" ,
                "nested-field-0": st + spec.enc_tag(unknown_no + 1, 3) + b"\x00\x01" + spec.enc_tag(unknown_no + 1, 4) + en,
            }
            for bi, (label, grp) in enumerate(bads.items()):
                if only == "badgroup" and w.get("bad") != label:
                    continue
                for place in ("end", "start"):
                    if label in ("never-closed", "cut-inside") and place == "start":
                        continue  # what follows would be swallowed into the group: judged at the end only
                    data = e0 + grp if place == "end" else grp + e0
                    ww = dict(w, mal="badgroup", bad=label, place=place)
                    res.note("bad_groups")
                    out = judge_generic(data, "bad-group", ww)
                    if out[0] == "ok":
                        res.violation("malformed-group-accepted", [label, place, "accepted"],
                                      f"{mi.full_name}: a group with malformed content ({label}) was accepted; input {data.hex()[:200]}", ww)

    # (4b) truncation inside records the schema does not decode: unknown numbers (every wire type) and known numbers
    # arriving with a non-fitting wire type -- a cut inside such a record must be rejected as well
    if only in (None, "cut-tail") and w.get("tag") in ("empty", "maximal", "matrix", None) or only == "cut-tail":
        unknown_no = max([f.number for f in mi.fields] + [0]) + 1
        tails = []
        if unknown_no < 2**29:
            tails += [_payload_for(1, unknown_no, rng), _payload_for(5, unknown_no, rng), spec.enc_tag(unknown_no, 2) + b"\x05hello",
                      spec.enc_tag(unknown_no, 0) + spec.enc_varint(2**40)]
        for fi in mi.fields[:6]:
            for wt in (1, 5, 2):
                if not _fits(fi, wt):
                    tails.append(_payload_for(wt, fi.number, rng) if wt != 2 else spec.enc_tag(fi.number, 2) + b"\x04abcd")
        for ti, tail in enumerate(tails):
            if only == "cut-tail" and ti != w["tail"]:
                continue
            for c in (range(1, len(tail)) if only != "cut-tail" else [w["cut"]]):
                data = e0 + tail[:c]
                ww = dict(w, mal="cut-tail", tail=ti, cut=c)
                res.note("truncations")
                out = judge_generic(data, "cut-in-undecoded-record", ww)
                if out[0] == "ok":
                    res.violation("truncation-accepted", ["cut-in-undecoded-record", f"wt{spec.dec_varint(tail)[0] & 7}", "in-payload-or-tag"],
                                  f"{mi.full_name}: an appended record {tail.hex()} cut after {c} bytes was accepted; input {data.hex()[:200]}", ww)

    # (4c) packed fixed-width payloads whose length is not a multiple of the element width, and invalid UTF-8
    if only in (None, "ragged", "utf8"):
        for fi in mi.fields:
            inner_kind = fi.kind
            if fi.label == "repeated" and fi.kind in spec.I32_KINDS + spec.I64_KINDS and only in (None, "ragged"):
                wdt = 4 if fi.kind in spec.I32_KINDS else 8
                for extra in (1, wdt - 1):
                    payload = bytes(range(1, wdt + 1)) * 2 + bytes([7] * extra)
                    data = e0 + spec.enc_record(fi.number, 2, payload)
                    ww = dict(w, mal="ragged", number=fi.number)
                    out = judge_generic(data, "ragged-packed", ww)
                    if out[0] == "ok":
                        res.violation("ragged-packed-accepted", [fi.cls_key(), f"extra{extra}", "accepted"],
                                      f"{mi.full_name}.{fi.name}: packed payload of {len(payload)} bytes (element width {wdt}) was accepted; input {data.hex()[:200]}", ww)
            if (fi.label == "repeated" and (fi.kind in spec.VARINT_KINDS if hasattr(spec, "VARINT_KINDS") else fi.kind in
                    ("int32", "int64", "uint32", "uint64", "sint32", "sint64", "bool", "enum")) and only in (None, "ragged")):
                # a packed varint payload whose last element is cut (continuation byte, then nothing)
                for payload in (b"\x80", b"\x01\x96", b"\x01\x02\xff\xff"):
                    data = e0 + spec.enc_record(fi.number, 2, payload)
                    ww = dict(w, mal="ragged", number=fi.number)
                    res.note("ragged_packed_varint")
                    out = judge_generic(data, "ragged-packed", ww)
                    if out[0] == "ok":
                        res.violation("ragged-packed-accepted", [fi.cls_key(), "cut-last-varint", "accepted"],
                                      f"{mi.full_name}.{fi.name}: packed payload {payload.hex()} ends inside a varint and was accepted; input {data.hex()[:200]}", ww)
            if fi.kind == "string" and fi.label in ("singular", "optional", "oneof", "repeated") and only in (None, "utf8"):
                for bad in (b"\xed\xa0\x80", b"\xff", b"\xc0\xaf", b"ab\xe2\x82", b"\xed\xbf\xbf"):
                    data = e0 + spec.enc_record(fi.number, 2, bad)
                    judge_generic(data, "invalid-utf8", dict(w, mal="utf8", number=fi.number))

    # (5) random byte strings --------------------------------------------------
    if only is None:
        for _ in range(6):
            n = rng.choice([1, 2, 3, 5, 8, 13, 21, 40])
            data = bytes(rng.getrandbits(8) for _ in range(n))
            judge_generic(data, "random-bytes", dict(w, mal="random", data=data.hex()))
    if only == "random":
        judge_generic(bytes.fromhex(w["data"]), "random-bytes", w)


def _field_at(b, mi, path: str):
    """FieldInfo addressed by a norm() problem path like /3/1[0]"""
    import re

    cur = mi
    fi = None
    for part in [p for p in path.split("/") if p]:
        num = int(re.match(r"\d+", part).group(0))
        try:
            fi = cur.field(num)
        except Exception:
            return fi
        inner = fi.map_value if fi.label == "map" else fi
        if inner is not None and inner.kind == "message" and inner.wkt is None and inner.type_name in b.msgs:
            cur = b.msgs[inner.type_name]
    return fi


def run_shard(shard):
    return run_value_shard(shard, PROP, check_case, CONTRACTS)


def replay(w):
    return replay_value(w, check_case, PROP, CONTRACTS)


RULE += " 'large' and 'after failures' shards of the shared value driver."
