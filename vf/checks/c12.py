"""C12 AsyncChannel: exactly-once ordered delivery, no stranded receiver."""
from __future__ import annotations

import asyncio
import hashlib
import json
import random
import traceback
from typing import Dict, List

from ..core import Result
from ..sched import Chooser, Director, explore

PROP = "C12"
LEVEL = "exploration"
RULE = ("small configurations (1..2 senders x 1..3 items via send or send_from, 1..3 receivers using receive() or async-for, "
        "close() issued at any point, buffer_limit in {0,1,2}, optionally one receiver cancelled or timed out at any point) "
        "run under a schedule director that owns a gate before every operation; schedules = sequences of (which gated "
        "operation next, wait for quiescence or overlap with in-flight wake-ups). Exhaustive stateless DFS per small "
        "configuration (capped) + seeded random schedules for the larger ones. Each run records call/return events at the "
        "client boundary with unique item ids on one logical clock; the offline checker decides O1 no invented / duplicated "
        "item, O2 every item whose send returned before close() was called is received exactly once (if a receiver keeps "
        "receiving), O3 per-sender order, O4 after close every receiver finishes (None / ChannelDone / end of iteration) "
        "within the idle-spin bound, O5 sends called after close raise ChannelClosed, O6 cancel / timeout surfaces as "
        "CancelledError / TimeoutError and O1-O5 still hold. Director choices per step: which gated task next x {wait for quiescence, overlap with in-flight wake-ups, batch = release the next gate in the same loop iteration}; half of the configurations run FREE (a task is gated only before its first operation, then runs its loop like client code, so consecutive non-suspending operations are not separated); the channel is closed by close() or by send_from(close=True), built inside or before the loop; after every schedule late-comers (receive, async-for, send, send_from from a list and from an async source) probe the closed channel. Every capped DFS configuration also gets seeded random schedules. distinct = distinct event histories (hash of the event sequence).")
ASSUMPTIONS = [
    "asyncio's stock event loop (FIFO ready queue); callbacks inside one loop iteration are not permuted against that rule",
    "liveness is restated as bounded progress: all receiver tasks done within the director's idle-spin bound after the last operation",
    "timeouts are driven logically (asyncio.timeout().reschedule(now)), never by sleeping",
]
FLOORS = {"quick": {"schedules": 8000, "distinct_histories": 1500}, "thorough": {"schedules": 400000, "distinct_histories": 40000}}
ANCHORS = ['AsyncChannel.done', 'AsyncChannel.close', 'AsyncChannel._flush_queue', 'AsyncChannel.__anext__', 'AsyncChannel.receive', 'AsyncChannel.send', 'AsyncChannel.send_from']
CONTRACTS = []
SHARD_TIMEOUT = {"quick": 600, "thorough": 3000}


def configs_small():
    out = []
    for senders, items in ((1, 1), (1, 2), (2, 1), (1, 3), (2, 2)):
        for receivers in (1, 2, 3):
            for mode in ("receive", "iter", "mixed"):
                if mode == "mixed" and receivers < 2:
                    continue
                for buf in (0, 1, 2):
                    for disturb in (None, "cancel", "timeout"):
                        for send_from in (False, True, "close", "async"):
                            if send_from is True and items < 2:
                                continue
                            if send_from == "close" and (senders != 1 or disturb):
                                continue  # send_from(..., close=True): the (single) sender closes the channel itself
                            for free in (False, True):
                                # free: a task is gated only before its FIRST operation and then runs its loop the way real
                                # code does (consecutive operations that do not suspend happen without any other task running
                                # in between) -- a gate before every operation would make such runs unreachable
                                out.append({"senders": senders, "items": items, "receivers": receivers, "mode": mode, "buf": buf,
                                            "disturb": disturb, "send_from": send_from, "free": free})
    return out


def plan(tier, seed):
    cfgs = configs_small()
    rng = random.Random(seed)
    shards = []
    if tier == "quick":
        # a fixed spread of small configurations explored exhaustively (capped), the rest randomly
        rng.shuffle(cfgs)
        # every small configuration (<= 2 items in total, <= 2 receivers) by DFS up to a cap, the rest by random schedules
        pick = [c for c in cfgs if c["senders"] * c["items"] <= 2 and c["receivers"] <= 2]
        n_dfs = 32
        for i in range(n_dfs):
            shards.append({"kind": "dfs", "configs": pick[i::n_dfs], "cap": 100, "n_random": 90, "seed": seed})
        rest = [c for c in cfgs if c not in pick]
        for i in range(8):
            shards.append({"kind": "random", "configs": rest[i::8], "n_per": 10, "seed": seed * 31 + i})
    else:
        for i in range(0, len(cfgs), 8):
            shards.append({"kind": "dfs", "configs": cfgs[i:i + 8], "cap": 800, "n_random": 300, "seed": seed})
        for i in range(8):
            shards.append({"kind": "random", "configs": cfgs[i::8], "n_per": 40, "seed": seed * 31 + i})
    shards.append({"kind": "stub", "seed": seed, "reps": 3 if tier == "quick" else 40})
    shards.append({"kind": "window"})
    return shards


# ---------------------------------------------------------------------------
# one execution

class Item(tuple):
    """a channel item with a unique id; every first item of a sender is FALSY (like an all-default protobuf
    message, 0 or ""), which a correct channel must deliver like any other item"""

    def __bool__(self):
        return self[1] != 0


def run_schedule(cfg, chooser: Chooser):
    """returns dict(events, tasks: name -> outcome, director stats)"""
    from betterproto.grpc.util.async_channel import AsyncChannel, ChannelClosed, ChannelDone

    loop = asyncio.new_event_loop()
    d = Director(chooser)
    d.loop = loop
    outcome: Dict[str, str] = {}
    unraisable: List[str] = []
    loop.set_exception_handler(lambda l, ctx: unraisable.append(str(ctx.get("message")) + ":" + repr(ctx.get("exception"))))

    # half of the runs construct the channel BEFORE the loop that uses it is running (a module-level / injected channel)
    early = AsyncChannel(buffer_limit=cfg["buf"]) if (cfg["buf"] + cfg["items"] + cfg["receivers"]) % 2 else None

    async def main():
        ch = early if early is not None else AsyncChannel(buffer_limit=cfg["buf"])
        tasks: Dict[str, asyncio.Task] = {}
        timeout_cm = {}

        async def sender(i):
            who = f"s{i}"
            try:
                if cfg["send_from"]:
                    await d.gate(who)
                    items = [Item((i, k)) for k in range(cfg["items"])]
                    d.log("call", who, "send_from", items)
                    try:
                        if cfg["send_from"] == "async":
                            # the source is an async generator that is suspended (at a gate of its own) before every item
                            # and once more before it ends: close() and receivers can land while send_from is in progress
                            # and its source holds no item
                            async def source():
                                for it in items:
                                    if it[1] or not cfg.get("free"):
                                        await d.gate(who)
                                    yield it
                                await d.gate(who)

                            await ch.send_from(source())
                            d.log("ret", who, "send_from", "ok")
                        elif cfg["send_from"] == "close":
                            await ch.send_from(items, close=True)
                            d.log("ret", who, "send_from", "ok")
                            d.log("call", "c", "close")
                            d.log("ret", "c", "close")
                            outcome["c"] = "done"
                        else:
                            await ch.send_from(items)
                            d.log("ret", who, "send_from", "ok")
                    except ChannelClosed:
                        d.log("ret", who, "send_from", "ChannelClosed")
                else:
                    for k in range(cfg["items"]):
                        if k == 0 or not cfg.get("free"):
                            await d.gate(who)  # "free": only the start of a task is scheduled, then it runs like real code
                        d.log("call", who, "send", (i, k))
                        try:
                            await ch.send(Item((i, k)))
                            d.log("ret", who, "send", "ok", (i, k))
                        except ChannelClosed:
                            d.log("ret", who, "send", "ChannelClosed", (i, k))
                outcome[who] = "done"
            except asyncio.CancelledError:
                outcome[who] = "cancelled"
                raise
            except BaseException as e:
                outcome[who] = "error:" + type(e).__name__
                d.log("ret", who, "error", type(e).__name__)

        async def receiver(j, mode):
            who = f"r{j}"
            try:
                async def body():
                    first = True
                    if mode == "receive":
                        while True:
                            if first or not cfg.get("free"):
                                await d.gate(who)
                            first = False
                            d.log("call", who, "receive")
                            try:
                                x = await ch.receive()
                            except ChannelDone:
                                d.log("ret", who, "receive", "ChannelDone")
                                return
                            d.log("ret", who, "receive", x)
                            if x is None:
                                return
                    else:
                        it = ch.__aiter__()
                        while True:
                            if first or not cfg.get("free"):
                                await d.gate(who)
                            first = False
                            d.log("call", who, "anext")
                            try:
                                x = await it.__anext__()
                            except StopAsyncIteration:
                                d.log("ret", who, "anext", "StopAsyncIteration")
                                return
                            d.log("ret", who, "anext", x)

                if cfg["disturb"] == "timeout" and j == 0:
                    async with asyncio.timeout(None) as cm:
                        timeout_cm[who] = cm
                        await body()
                else:
                    await body()
                outcome[who] = "done"
            except asyncio.CancelledError:
                outcome[who] = "cancelled"
                d.log("ret", who, "exc", "CancelledError")
                raise
            except TimeoutError:
                outcome[who] = "timeout"
                d.log("ret", who, "exc", "TimeoutError")
            except BaseException as e:
                outcome[who] = "error:" + type(e).__name__
                d.log("ret", who, "exc", type(e).__name__, str(e)[:80])

        async def closer():
            await d.gate("c")
            d.log("call", "c", "close")
            ch.close()
            d.log("ret", "c", "close")
            outcome["c"] = "done"

        async def disturber():
            await d.gate("x")
            if cfg["disturb"] == "cancel":
                d.log("call", "x", "cancel", "r0")
                tasks["r0"].cancel()
            else:
                d.log("call", "x", "timeout", "r0")
                cm = timeout_cm.get("r0")
                if cm is not None:
                    cm.reschedule(loop.time() - 1)
            outcome["x"] = "done"

        for i in range(cfg["senders"]):
            tasks[f"s{i}"] = loop.create_task(sender(i))
        for j in range(cfg["receivers"]):
            mode = cfg["mode"] if cfg["mode"] != "mixed" else ("receive" if j % 2 == 0 else "iter")
            tasks[f"r{j}"] = loop.create_task(receiver(j, mode))
        if cfg["send_from"] != "close":
            tasks["c"] = loop.create_task(closer())
        if cfg["disturb"]:
            tasks["x"] = loop.create_task(disturber())
        await d.run(tasks)
        # bounded progress: a few more idle spins, then whoever is not done is stranded
        for _ in range(8):
            await asyncio.sleep(0)
        pending = {n: t for n, t in tasks.items() if not t.done()}
        for n, t in pending.items():
            outcome.setdefault(n, "stranded")
            if outcome[n] not in ("done",):
                outcome[n] = "stranded"
            t.cancel()
        await asyncio.gather(*tasks.values(), return_exceptions=True)
        for n, t in tasks.items():
            if n in pending:
                outcome[n] = "stranded"
        if outcome.get("c") == "done":
            # "every FUTURE receive / iteration terminates and every later send raises": late-comers on the closed channel,
            # after whatever way the earlier receivers ended (flush sentinel, done() check, cancellation); tasks that were
            # still pending (a sender waiting for room, a stranded receiver) have been cancelled above
            async def late():
                for kind in ("anext", "receive", "send", "send_from_async", "send_from_list", "anext", "receive"):
                    for _ in range(6):
                        if kind == "send":
                            d.log("call", "s9", "send", (9, 0))
                            try:
                                await ch.send(Item((9, 0)))
                                d.log("ret", "s9", "send", "ok", (9, 0))
                            except ChannelClosed:
                                d.log("ret", "s9", "send", "ChannelClosed", (9, 0))
                            break
                        if kind.startswith("send_from"):
                            who = "s8" if kind.endswith("async") else "s7"
                            items = [Item((int(who[1:]), k)) for k in range(2)]

                            async def agen(items=items):
                                for it in items:
                                    yield it

                            d.log("call", who, "send_from", items)
                            try:
                                await ch.send_from(agen() if kind.endswith("async") else items)
                                d.log("ret", who, "send_from", "ok")
                            except ChannelClosed:
                                d.log("ret", who, "send_from", "ChannelClosed")
                            break
                        d.log("call", "r_late", kind)
                        try:
                            x = await (ch.receive() if kind == "receive" else ch.__aiter__().__anext__())
                        except ChannelDone:
                            d.log("ret", "r_late", kind, "ChannelDone")
                            break
                        except StopAsyncIteration:
                            d.log("ret", "r_late", kind, "StopAsyncIteration")
                            break
                        d.log("ret", "r_late", kind, x)
                        if x is None:
                            break
                outcome["r_late"] = "done"

            outcome["r_late"] = "stranded"
            lt = loop.create_task(late())
            for _ in range(40):
                if lt.done():
                    break
                await asyncio.sleep(0)
            if not lt.done():
                lt.cancel()
                await asyncio.gather(lt, return_exceptions=True)
                outcome["r_late"] = "stranded"
            elif lt.exception() is not None:
                outcome["r_late"] = "error:" + type(lt.exception()).__name__
        return ch

    try:
        loop.run_until_complete(asyncio.wait_for(main(), timeout=20))
        hang = False
    except asyncio.TimeoutError:
        hang = True
    finally:
        try:
            loop.run_until_complete(loop.shutdown_asyncgens())
        except Exception:
            pass
        loop.close()
    return {"events": d.events, "outcome": outcome, "max_settle": d.max_settle, "unsettled": d.unsettled, "hang": hang,
            "loop_errors": unraisable, "choices": list(chooser.taken)}


# ---------------------------------------------------------------------------
# offline checker over the recorded history

def check_history(cfg, run) -> List[tuple]:
    """returns list of (obligation, failure kind, detail)"""
    ev = run["events"]
    out = []
    if run["hang"]:
        return [("watchdog", "hang", "schedule did not finish")]
    sent_call, sent_ret, recv = {}, {}, []
    close_call = None
    disturbed_at = None
    for e in ev:
        t, kind, who, op = e[0], e[1], e[2], e[3]
        if kind == "call" and op == "send":
            sent_call[tuple(e[4])] = t
        elif kind == "call" and op == "send_from":
            for it in e[4]:
                sent_call[tuple(it)] = t
        elif kind == "ret" and op == "send" and e[4] == "ok":
            sent_ret[tuple(e[5])] = t
        elif kind == "ret" and op == "send_from" and e[4] == "ok":
            for it in [k for k, v in sent_call.items() if k[0] == int(who[1:])]:
                sent_ret[it] = t
        elif kind == "call" and op == "close":
            close_call = t
        elif kind == "ret" and op in ("receive", "anext") and isinstance(e[4], (list, tuple)):
            recv.append((t, who, tuple(e[4])))
        elif kind == "call" and op in ("cancel", "timeout"):
            disturbed_at = t
    # O1
    seen, seen_all = {}, {}
    for t, who, item in recv:
        if item not in sent_call:
            out.append(("O1", "invented-item", f"{who} received {item} which was never sent"))
        if item in seen_all:
            out.append(("O1", "duplicate-delivery", f"{item} received by {seen_all[item]} and {who}"))
        seen_all[item] = who
        if who != "r_late":
            seen[item] = who  # O2 is about the receivers of the workload; what a late-comer still finds is O2b's business
    # which receivers kept receiving until done
    outcome = run["outcome"]
    receivers = [n for n in outcome if n.startswith("r")]
    disturbed = "r0" if cfg["disturb"] else None
    keepers = [r for r in receivers if r != "r_late" and (r != disturbed or outcome.get(r) == "done")]
    # O2
    if close_call is not None and keepers:
        for item, tr in sent_ret.items():
            if tr < close_call and item not in seen:
                kind = "item-lost"
                if disturbed and outcome.get(disturbed) in ("cancelled", "timeout") and disturbed_at is not None:
                    # was the disturbed receiver blocked in a receive when this send completed (so that the item woke IT),
                    # and disturbed before it could run?  Then another receiver may have seen done() while the item counted
                    # as spoken for -- the recorded design-level finding, keyed by this shape only
                    calls = [e for e in ev if e[2] == disturbed and e[3] in ("receive", "anext")]
                    open_at_tr = False
                    for ci, e in enumerate(calls):
                        if e[1] == "call" and e[0] < tr:
                            ret = next((x for x in calls[ci + 1:] if x[1] == "ret"), None)
                            if ret is None or ret[0] > tr:
                                open_at_tr = ret is None or not isinstance(ret[4], (list, tuple))
                    got_after = any(t > tr and who == disturbed for t, who, _ in recv)
                    surfaced = next((e[0] for e in ev if e[1] == "ret" and e[2] == disturbed and e[3] == "exc"), None)
                    if open_at_tr and not got_after and surfaced is not None and surfaced > tr:
                        kind = "item-lost-woken-receiver-was-disturbed"
                out.append(("O2", kind, f"send of {item} returned at {tr} before close() at {close_call} but it was never received"))
    # O2b: whatever happened to the receivers of the workload, an item whose send returned before close() must still be
    # there for a receiver that arrives later and drains the closed channel (it may be left over, never gone for good)
    if close_call is not None and run["outcome"].get("r_late") == "done":
        for item, tr in sent_ret.items():
            if tr < close_call and item not in seen_all:
                out.append(("O2", "item-lost-for-good", f"send of {item} returned at {tr} before close() at {close_call}; no receiver got it and a late-comer draining the closed channel did not find it either"))
    # O3
    last = {}
    for t, who, item in recv:
        s, k = item
        if s in last and k < last[s]:
            out.append(("O3", "order-violated", f"item {item} received after {(s, last[s])}"))
        last[s] = max(last.get(s, -1), k)
    # O4
    if close_call is not None:
        for r in receivers:
            oc = outcome.get(r)
            if r == disturbed and oc in ("cancelled", "timeout"):
                continue
            if oc != "done":
                out.append(("O4", "receiver-" + str(oc), f"{r} after close(): {oc}"))
    # O5
    for e in ev:
        if e[1] == "ret" and e[3] in ("send", "send_from") and close_call is not None:
            call_t = next((x[0] for x in ev if x[1] == "call" and x[2] == e[2] and x[3] == e[3] and x[0] < e[0]
                           and (e[3] == "send_from" or tuple(x[4]) == tuple(e[5]))), None)
            if call_t is not None and call_t > close_call and e[4] == "ok":
                out.append(("O5", "send-after-close-accepted", f"{e[2]} {e[3]} called at {call_t} after close() at {close_call} returned ok"))
    # O6
    if cfg["disturb"]:
        oc = outcome.get("r0")
        want = "cancelled" if cfg["disturb"] == "cancel" else "timeout"
        if oc not in (want, "done"):
            # 'done' is legitimate when r0 had already finished (or was not blocked) when disturbed
            out.append(("O6", f"{cfg['disturb']}-surfaced-as-{oc}", f"r0 was {cfg['disturb']}led but ended as {oc}"))
    for n, oc in outcome.items():
        if oc.startswith("error:"):
            out.append(("tasks", "unexpected-exception:" + oc[6:], f"task {n} ended with {oc}"))
    for m in run["loop_errors"]:
        out.append(("loop", "unretrieved-exception", m[:200]))
    return out


def history_hash(run) -> str:
    return hashlib.sha1(json.dumps([e[1:] for e in run["events"]], default=str).encode()).hexdigest()[:16]


def cfg_name(cfg) -> str:
    return (f"s{cfg['senders']}x{cfg['items']}{({'close': 'fc', 'async': 'fa'}.get(cfg['send_from'], 'f')) if cfg['send_from'] else ''}-r{cfg['receivers']}{cfg['mode'][0]}-b{cfg['buf']}"
            f"-{cfg['disturb'] or 'nodisturb'}" + ("-free" if cfg.get("free") else ""))


def judge(cfg, ch: Chooser, run, res: Result, hashes: set):
    res.counters["schedules"] += 1
    res.evaluations += 1
    h = history_hash(run)
    if h not in hashes:
        hashes.add(h)
        res.distinct.add(cfg_name(cfg) + ":" + h)
        res.counters["distinct_histories"] += 1
    res.extra["max_spins_to_quiescence"] = max(res.extra.get("max_spins_to_quiescence", 0), run["max_settle"])
    if run["unsettled"]:
        res.counters["unsettled-spins"] += 1
    for ob, kind, detail in check_history(cfg, run):
        if ob == "watchdog":
            res.inconclusive.append(f"{cfg_name(cfg)} choices {run['choices']}: {detail}")
            continue
        res.violation(ob, [ob, kind, "disturb=" + str(cfg["disturb"]), "mode=" + cfg["mode"], "buf>0" if cfg["buf"] else "unbounded"],
                      f"{cfg_name(cfg)}: {detail}; history: {[e[1:] for e in run['events']][:40]}",
                      {"cfg": cfg, "choices": run["choices"]})


# ---------------------------------------------------------------------------
# consumer anchor: the channel consumed by ServiceStub._send_messages inside a generated stream-stream call

async def _stub_scenario(b, stub_cls, base_cls, local_cls, sc, rng, res: Result, w):
    import grpclib
    from grpclib.testing import ChannelFor
    from betterproto.grpc.util.async_channel import AsyncChannel

    seen_by_handler, produced = [], []

    async def stream_stream(self, request_iterator):
        async for r in request_iterator:
            seen_by_handler.append(r.name)
            out = local_cls(name="echo:" + r.name)
            produced.append(out.name)
            yield out

    impl = type("Impl", (base_cls,), {"stream_stream": stream_stream})()
    loop = asyncio.get_running_loop()
    loop_errors = []
    loop.set_exception_handler(lambda l, ctx: loop_errors.append(str(ctx.get("message")) + ":" + repr(ctx.get("exception"))))
    sent, received = [], []

    async def yields():
        for _ in range(rng.choice([0, 0, 1, 2, 3])):
            await asyncio.sleep(0)

    async with ChannelFor([impl]) as channel:
        stub = stub_cls(channel)
        ch = AsyncChannel(buffer_limit=sc["buf"])
        n = sc["n"]
        if sc["when"] == "before":
            items = [local_cls(name=f"i{k}") for k in range(n)]
            sent += [m.name for m in items]
            await ch.send_from(items, close=True)

        async def consume():
            async for resp in stub.stream_stream(ch):
                received.append(resp.name)
                if sc["early"] and len(received) >= 1:
                    break

        task = asyncio.ensure_future(consume())
        if sc["when"] == "after":
            for k in range(n):
                await yields()
                m = local_cls(name=f"i{k}")
                try:
                    await asyncio.wait_for(ch.send(m), 5)
                    sent.append(m.name)
                except Exception as e:
                    if not sc["early"]:
                        res.violation("stub", ["send-raised:" + type(e).__name__, sc["tag"]], f"send #{k} raised {e!r}", w)
                    break
            await yields()
            ch.close()
        try:
            await asyncio.wait_for(task, 10)
        except asyncio.TimeoutError:
            res.violation("stub", ["response-iteration-never-ended", sc["tag"]], f"scenario {sc}: the stub's response iterator did not end after close()", w)
            task.cancel()
            return
        except Exception as e:
            res.violation("stub", ["call-raised:" + type(e).__name__, sc["tag"]], f"scenario {sc}: {e!r}", w)
            return
        for _ in range(5):
            await asyncio.sleep(0)
    res.counters["stub_scenarios"] += 1
    res.counters["schedules"] += 1
    res.evaluations += 1
    res.distinct.add("stub:" + json.dumps(sc, sort_keys=True) + str(len(received)))
    if sc["early"]:
        if received[:1] != [("echo:" + x) for x in sent[:1]] and sent:
            res.violation("stub", ["early-termination-wrong-first-response", sc["tag"]], f"{received} vs sent {sent}", w)
    else:
        if seen_by_handler != sent:
            kind = "lost" if len(seen_by_handler) < len(sent) else ("duplicated-or-invented" if len(seen_by_handler) > len(sent) else "reordered")
            res.violation("stub", ["requests-" + kind, sc["tag"]], f"scenario {sc}: handler saw {seen_by_handler}, sent before close {sent}", w)
        if received != produced:
            res.violation("stub", ["responses-differ", sc["tag"]], f"scenario {sc}: received {received}, produced {produced}", w)
    for m in loop_errors:
        res.violation("stub", ["unretrieved-exception", sc["tag"]], f"scenario {sc}: {m[:200]}", w)


def run_stub_shard(shard) -> Result:
    from .. import corpus
    from ..build import Build, BuildError
    from .c11 import item_protos

    res = Result()
    try:
        b = Build(item_protos({"kind": "svcmatrix"})).full()
    except BuildError as e:
        res.inconclusive.append(f"service matrix could not be built: {e.stage}: {e.detail[-300:]}")
        return res
    try:
        mod = b.module("vf.svc")
        rng = random.Random(f"c12stub-{shard['seed']}")
        scs = []
        for n in (0, 1, 2, 3):
            for when in ("before", "after"):
                for buf in (0, 1):
                    for early in (False, True):
                        if early and n == 0:
                            continue
                        if when == "before" and buf and n > buf:
                            continue  # send_from before any consumer exists would block on the full buffer by construction
                        scs.append({"n": n, "when": when, "buf": buf, "early": early,
                                    "tag": f"{when}-{'early' if early else 'full'}-{'bounded' if buf else 'unbounded'}"})
        for rep in range(shard["reps"]):
            for sc in scs:
                w = {"kind": "stub", "sc": sc, "seed": shard["seed"], "rep": rep}
                try:
                    asyncio.run(asyncio.wait_for(_stub_scenario(b, mod.MatrixStub, mod.MatrixBase, mod.Local, sc, rng, res, w), 30))
                except asyncio.TimeoutError:
                    res.violation("stub", ["hang", sc["tag"]], f"scenario {sc} did not finish", w)
                except Exception as e:
                    res.inconclusive.append(f"stub scenario crashed: {type(e).__name__}: {e}\n{traceback.format_exc()[-800:]}")
                    return res
        res.sample({"stub_consumer": "AsyncChannel consumed by ServiceStub._send_messages in MatrixStub.stream_stream", "scenarios": len(scs)})
    finally:
        b.cleanup()
    return res


# ---------------------------------------------------------------------------
# directed "window" scenarios: everything between a wake-up and the woken task running happens in ONE uninterrupted
# step of the driving coroutine (send / close / a second receiver arriving or a done() poll / cancel or timeout of the
# woken receiver), which the gate-based director reaches only through rare batch choices.  The obligations here are the
# "for good" ones: by the time a late-comer has drained the closed channel, every item whose send returned before close()
# was received exactly once by SOMEBODY, nothing was invented, per-sender order holds, everybody terminated and later
# sends are refused.  (Whether the receivers of the original workload got the item is O2 / KF19's business.)

def window_scenarios():
    out = []
    for buf in (0, 1, 2):
        for mode in ("receive", "iter"):
            for blocked in (1, 2):
                for order in ("send,close", "send,send,close", "close", "close,send", "send,close,send"):
                    if order == "send,send,close" and buf == 1:
                        continue  # the second send would block inside the window by construction
                    for probe in ("none", "done", "receive", "anext"):
                        for disturb in (None, "cancel", "timeout"):
                            for when in ("before-probe", "after-probe"):
                                if (probe == "none" or disturb is None) and when == "after-probe":
                                    continue
                                # the probe arrives in the same step as the last operation of the window, or 1..3 loop
                                # iterations later (the flush task has run / the woken receivers have run / everything settled)
                                for lag in ((0,) if probe == "none" else (0, 1, 2, 3)):
                                    out.append({"buf": buf, "mode": mode, "blocked": blocked, "order": order, "probe": probe,
                                                "disturb": disturb, "when": when, "lag": lag})
    return out


def run_window(sc):
    from betterproto.grpc.util.async_channel import AsyncChannel, ChannelClosed, ChannelDone

    ev: List[tuple] = []
    outcome: Dict[str, str] = {}
    loop_errors: List[str] = []

    def log(*e):
        ev.append((len(ev),) + e)

    async def main():
        loop = asyncio.get_running_loop()
        loop.set_exception_handler(lambda l, ctx: loop_errors.append(str(ctx.get("message")) + ":" + repr(ctx.get("exception"))))
        ch = AsyncChannel(buffer_limit=sc["buf"])
        cms = {}

        async def one(who, kind, it=None):
            """one receive / anext; returns False when the receiver is finished"""
            log("call", who, kind)
            try:
                x = await (ch.receive() if kind == "receive" else it.__anext__())
            except ChannelDone:
                log("ret", who, kind, "ChannelDone")
                return False
            except StopAsyncIteration:
                log("ret", who, kind, "StopAsyncIteration")
                return False
            log("ret", who, kind, x)
            return x is not None

        async def receiver(who, mode, with_timeout):
            try:
                async def body():
                    it = ch.__aiter__()
                    while await one(who, "receive" if mode == "receive" else "anext", it):
                        pass
                if with_timeout:
                    async with asyncio.timeout(None) as cm:
                        cms[who] = cm
                        await body()
                else:
                    await body()
                outcome[who] = "done"
            except asyncio.CancelledError:
                outcome[who] = "cancelled"
                log("ret", who, "exc", "CancelledError")
                raise
            except TimeoutError:
                outcome[who] = "timeout"
                log("ret", who, "exc", "TimeoutError")
            except BaseException as e:
                outcome[who] = "error:" + type(e).__name__
                log("ret", who, "exc", type(e).__name__, str(e)[:80])

        tasks = {}
        for j in range(sc["blocked"]):
            who = f"r{j}"
            mode = sc["mode"] if j == 0 else ("iter" if sc["mode"] == "receive" else "receive")
            outcome[who] = "stranded"
            tasks[who] = loop.create_task(receiver(who, mode, sc["disturb"] == "timeout" and j == 0))
        for _ in range(4):
            await asyncio.sleep(0)  # everybody is blocked in its first receive now

        def disturb():
            if sc["disturb"] == "cancel":
                log("call", "x", "cancel", "r0")
                tasks["r0"].cancel()
            elif sc["disturb"] == "timeout":
                log("call", "x", "timeout", "r0")
                try:
                    cms["r0"].reschedule(loop.time() - 1)
                except RuntimeError:  # r0 has already left its timeout block: nothing to disturb any more
                    log("ret", "x", "timeout", "too-late")

        # ---- the window: no suspension point below unless a put has to wait (excluded by construction)
        k = 0
        for op in sc["order"].split(","):
            if op == "send":
                item = Item((0, k))
                k += 1
                log("call", "s0", "send", tuple(item))
                co = ch.send(item)
                try:
                    co.send(None)
                    log("ret", "s0", "send", "would-block", tuple(item))  # not expected by construction
                    co.close()
                except StopIteration:
                    log("ret", "s0", "send", "ok", tuple(item))
                except ChannelClosed:
                    log("ret", "s0", "send", "ChannelClosed", tuple(item))
            else:
                log("call", "c", "close")
                ch.close()
                log("ret", "c", "close")
        if sc["when"] == "before-probe":
            disturb()
        for _ in range(sc.get("lag", 0)):
            await asyncio.sleep(0)
        if sc["probe"] == "done":
            log("probe", "p", "done", bool(ch.done()))
        elif sc["probe"] in ("receive", "anext"):
            # a second receiver arriving inside the window, driven by hand: one step of its coroutine; if it would have to
            # wait it is abandoned at once (= a receiver cancelled while blocked)
            log("call", "p", sc["probe"])
            co = ch.receive() if sc["probe"] == "receive" else ch.__aiter__().__anext__()
            try:
                co.send(None)
                log("ret", "p", sc["probe"], "would-block")
                co.close()
            except StopIteration as si:
                log("ret", "p", sc["probe"], si.value)
            except ChannelDone:
                log("ret", "p", sc["probe"], "ChannelDone")
            except StopAsyncIteration:
                log("ret", "p", sc["probe"], "StopAsyncIteration")
        if sc["when"] == "after-probe":
            disturb()
        # ---- end of the window
        for _ in range(12):
            await asyncio.sleep(0)
        stranded = [who for who, t in tasks.items() if not t.done()]
        for who in stranded:
            tasks[who].cancel()
        await asyncio.gather(*tasks.values(), return_exceptions=True)
        for who in stranded:
            outcome[who] = "stranded"
        if "close" in sc["order"]:
            async def late():
                it = ch.__aiter__()
                for kind in ("receive", "anext", "receive"):
                    while await one("r_late", kind, it):
                        pass
                log("call", "s9", "send", (9, 0))
                try:
                    await ch.send(Item((9, 0)))
                    log("ret", "s9", "send", "ok", (9, 0))
                except ChannelClosed:
                    log("ret", "s9", "send", "ChannelClosed", (9, 0))
                outcome["r_late"] = "done"

            outcome["r_late"] = "stranded"
            lt = loop.create_task(late())
            for _ in range(40):
                if lt.done():
                    break
                await asyncio.sleep(0)
            if not lt.done():
                lt.cancel()
                await asyncio.gather(lt, return_exceptions=True)
            elif lt.exception() is not None:
                outcome["r_late"] = "error:" + type(lt.exception()).__name__

    hang = False
    try:
        asyncio.run(asyncio.wait_for(main(), timeout=20))
    except asyncio.TimeoutError:
        hang = True
    return {"events": ev, "outcome": outcome, "loop_errors": loop_errors, "hang": hang}


def check_window(sc, run) -> List[tuple]:
    if run["hang"]:
        return [("watchdog", "hang", "window scenario did not finish")]
    ev, outcome, out = run["events"], run["outcome"], []
    closed_at = next((e[0] for e in ev if e[1] == "call" and e[3] == "close"), None)
    sent_ok = {tuple(e[5]): e[0] for e in ev if e[1] == "ret" and e[3] == "send" and e[4] == "ok"}
    got = [(e[0], e[2], tuple(e[4])) for e in ev if e[1] == "ret" and e[3] in ("receive", "anext") and isinstance(e[4], tuple)]
    seen = {}
    for t, who, item in got:
        if item not in sent_ok:
            out.append(("W1", "invented-item", f"{who} received {item}"))
        if item in seen:
            out.append(("W1", "duplicate-delivery", f"{item} received by {seen[item]} and {who}"))
        seen[item] = who
    for e in ev:
        if e[1] == "ret" and e[3] == "send" and e[4] == "would-block":
            out.append(("harness", "send-would-block", str(e)))
    if closed_at is not None:
        for item, t in sent_ok.items():
            if t < closed_at and item not in seen and outcome.get("r_late") == "done":
                out.append(("W2", "item-lost-for-good", f"send of {item} returned before close() but nobody ever received it, a late-comer included"))
            if t > closed_at:
                out.append(("W5", "send-after-close-accepted", f"send of {item} after close() returned ok"))
        for who, oc in outcome.items():
            if who == "r0" and sc["disturb"] and oc in ("cancelled", "timeout"):
                continue
            if oc != "done":
                out.append(("W4", f"receiver-{oc}", f"{who} after close(): {oc}"))
    last = -1
    for t, who, item in got:
        if item[0] == 0:
            if item[1] < last:
                out.append(("W3", "order-violated", f"{item} after (0, {last})"))
            last = max(last, item[1])
    if sc["disturb"]:
        want = "cancelled" if sc["disturb"] == "cancel" else "timeout"
        if outcome.get("r0") not in (want, "done"):
            out.append(("W6", f"{sc['disturb']}-surfaced-as-{outcome.get('r0')}", f"r0 ended as {outcome.get('r0')}"))
    for m in run["loop_errors"]:
        out.append(("loop", "unretrieved-exception", m[:200]))
    return out


def backlog_scenarios():
    out = []
    for n in (10, 63, 64, 65, 130, 200):
        for mode in ("receive", "iter"):
            for buf in (0, 256):
                for steps in (1, 2, 3):
                    for disturb in ("cancel", "timeout"):
                        for close_first in (True, False):
                            out.append({"kind": "backlog", "n": n, "mode": mode, "buf": buf, "steps": steps, "disturb": disturb, "close_first": close_first})
    return out


def run_backlog(sc):
    """a LONG backlog: n items are queued before the only receiver starts; it is cancelled / timed out after a few loop
    iterations (wherever it happens to be by then), a late-comer drains the closed channel; every item must have been
    received exactly once by one of the two, in order"""
    from betterproto.grpc.util.async_channel import AsyncChannel, ChannelClosed, ChannelDone

    ev: List[tuple] = []
    outcome: Dict[str, str] = {}
    loop_errors: List[str] = []

    def log(*e):
        ev.append((len(ev),) + e)

    async def main():
        loop = asyncio.get_running_loop()
        loop.set_exception_handler(lambda l, ctx: loop_errors.append(str(ctx.get("message")) + ":" + repr(ctx.get("exception"))))
        ch = AsyncChannel(buffer_limit=sc["buf"])
        items = [Item((0, k)) for k in range(sc["n"])]
        for it in items:
            log("call", "s0", "send", tuple(it))
            await ch.send(it)
            log("ret", "s0", "send", "ok", tuple(it))
        if sc["close_first"]:
            log("call", "c", "close")
            ch.close()
            log("ret", "c", "close")
        cms = {}

        async def consume(who, kind):
            it = ch.__aiter__()
            while True:
                log("call", who, kind)
                try:
                    x = await (ch.receive() if kind == "receive" else it.__anext__())
                except (ChannelDone, StopAsyncIteration) as e:
                    log("ret", who, kind, type(e).__name__)
                    return
                log("ret", who, kind, x)
                if x is None:
                    return

        async def r0():
            try:
                if sc["disturb"] == "timeout":
                    async with asyncio.timeout(None) as cm:
                        cms["r0"] = cm
                        await consume("r0", "receive" if sc["mode"] == "receive" else "anext")
                else:
                    await consume("r0", "receive" if sc["mode"] == "receive" else "anext")
                outcome["r0"] = "done"
            except asyncio.CancelledError:
                outcome["r0"] = "cancelled"
                log("ret", "r0", "exc", "CancelledError")
                raise
            except TimeoutError:
                outcome["r0"] = "timeout"
                log("ret", "r0", "exc", "TimeoutError")

        outcome["r0"] = "stranded"
        t = loop.create_task(r0())
        for _ in range(sc["steps"]):
            await asyncio.sleep(0)
        if not t.done():
            if sc["disturb"] == "cancel":
                log("call", "x", "cancel", "r0")
                t.cancel()
            else:
                log("call", "x", "timeout", "r0")
                try:
                    cms["r0"].reschedule(loop.time() - 1)
                except (RuntimeError, KeyError):
                    log("ret", "x", "timeout", "too-late")
        for _ in range(6):
            await asyncio.sleep(0)
        if not sc["close_first"]:
            log("call", "c", "close")
            ch.close()
            log("ret", "c", "close")
        for _ in range(6):
            await asyncio.sleep(0)
        if not t.done():
            # r0 was not disturbed in time and is still consuming / waiting: let it finish, bounded
            for _ in range(sc["n"] + 20):
                if t.done():
                    break
                await asyncio.sleep(0)
        if not t.done():
            t.cancel()
            await asyncio.gather(t, return_exceptions=True)
            outcome["r0"] = "stranded"
        else:
            await asyncio.gather(t, return_exceptions=True)
        outcome["r_late"] = "stranded"
        lt = loop.create_task(consume("r_late", "receive"))
        for _ in range(sc["n"] + 40):
            if lt.done():
                break
            await asyncio.sleep(0)
        if lt.done() and lt.exception() is None:
            outcome["r_late"] = "done"
        elif not lt.done():
            lt.cancel()
            await asyncio.gather(lt, return_exceptions=True)

    hang = False
    try:
        asyncio.run(asyncio.wait_for(main(), timeout=30))
    except asyncio.TimeoutError:
        hang = True
    return {"events": ev, "outcome": outcome, "loop_errors": loop_errors, "hang": hang}


def run_window_shard(shard) -> Result:
    res = Result()
    try:
        hashes_b = set()
        for sc in backlog_scenarios():
            run = run_backlog(sc)
            res.evaluations += 1
            res.counters["schedules"] += 1
            res.counters["backlog_scenarios"] += 1
            h = history_hash(run)
            if h not in hashes_b:
                hashes_b.add(h)
                res.distinct.add("backlog:" + h)
                res.counters["distinct_histories"] += 1
            scw = dict(sc, probe="none", order="close", blocked=1)
            for ob, kind, detail in check_window(scw, run):
                if ob in ("watchdog", "harness"):
                    res.inconclusive.append(f"backlog {sc}: {kind} {detail}")
                    continue
                res.violation(ob, [ob, kind, "backlog>=64" if sc["n"] >= 64 else "backlog<64", "disturb=" + str(sc["disturb"]), "buf>0" if sc["buf"] else "unbounded"],
                              f"backlog {sc}: {detail}; last events: {[e[1:] for e in run['events']][-12:]}", sc)
        scs = window_scenarios()
        hashes = set()
        for sc in scs:
            run = run_window(sc)
            res.evaluations += 1
            res.counters["schedules"] += 1
            res.counters["window_scenarios"] += 1
            h = history_hash(run)
            if h not in hashes:
                hashes.add(h)
                res.distinct.add("window:" + h)
                res.counters["distinct_histories"] += 1
            for ob, kind, detail in check_window(sc, run):
                if ob == "watchdog":
                    res.inconclusive.append(f"window {sc}: {detail}")
                    continue
                if ob == "harness":
                    res.inconclusive.append(f"window {sc}: {kind} {detail}")
                    continue
                res.violation(ob, [ob, kind, "probe=" + sc["probe"], "disturb=" + str(sc["disturb"]), "buf>0" if sc["buf"] else "unbounded"],
                              f"window {sc}: {detail}; history: {[e[1:] for e in run['events']][:40]}", {"kind": "window", "sc": sc})
        if scs:
            run = run_window(next(s for s in scs if s["probe"] == "receive" and s["disturb"] == "cancel" and s["order"] == "send,close"))
            res.sample({"window_scenario": "send, close, second receiver, cancel of the woken receiver in one step",
                        "history": [list(map(str, e[1:])) for e in run["events"]][:40], "outcome": run["outcome"]})
    except Exception as e:
        res.inconclusive.append(f"oracle crashed: {type(e).__name__}: {e}\n{traceback.format_exc()[-1500:]}")
    return res


def run_shard(shard) -> Result:
    import betterproto  # noqa: F401  (tree under test on the path)
    if shard.get("kind") == "window":
        return run_window_shard(shard)

    if shard.get("kind") == "stub":
        return run_stub_shard(shard)
    res = Result()
    try:
        for cfg in shard["configs"]:
            hashes: set = set()
            if shard["kind"] == "dfs":
                n, exhausted = explore(lambda ch: run_schedule(cfg, ch), shard["cap"],
                                       lambda ch, run: judge(cfg, ch, run, res, hashes))
                res.counters["configs_exhausted" if exhausted else "configs_capped"] += 1
                if not exhausted and shard.get("n_random"):
                    # a capped DFS only sees the neighbourhood of its first path: seeded random schedules spread over the
                    # whole depth of the same configuration
                    rrng = random.Random(f"{shard.get('seed', 0)}-dfsrand-{cfg_name(cfg)}")
                    for _ in range(shard["n_random"]):
                        ch = Chooser([], rrng)
                        judge(cfg, ch, run_schedule(cfg, ch), res, hashes)
                res.extra.setdefault("per_config", {})[cfg_name(cfg)] = f"{n} schedules, {len(hashes)} histories, {'exhaustive' if exhausted else 'capped'}"
            else:
                rng = random.Random(f"{shard['seed']}-{cfg_name(cfg)}")
                for _ in range(shard["n_per"]):
                    ch = Chooser([], rng)
                    judge(cfg, ch, run_schedule(cfg, ch), res, hashes)
            if len(res.samples) < 2:
                # a representative history for the evidence: of a few seeded random schedules the one with most events
                srng = random.Random(f"sample-{cfg_name(cfg)}")
                runs = [run_schedule(cfg, Chooser([], srng)) for _ in range(5)]
                run = max(runs, key=lambda r: len(r["events"]))
                res.sample({"config": cfg_name(cfg), "history": [list(map(str, e[1:])) for e in run["events"]][:40], "outcome": run["outcome"]})
    except Exception as e:
        res.inconclusive.append(f"oracle crashed: {type(e).__name__}: {e}\n{traceback.format_exc()[-1500:]}")
    return res


def replay(w):
    import betterproto  # noqa: F401

    if w.get("kind") == "stub":
        return run_stub_shard({"seed": w["seed"], "reps": w["rep"] + 1}).violations
    if w.get("kind") == "backlog":
        res = Result()
        scw = dict(w, probe="none", order="close", blocked=1)
        for ob, kind, detail in check_window(scw, run_backlog(w)):
            res.violation(ob, [ob, kind, "backlog>=64" if w["n"] >= 64 else "backlog<64", "disturb=" + str(w["disturb"]), "buf>0" if w["buf"] else "unbounded"], detail, w)
        return res.violations
    if w.get("kind") == "window":
        res = Result()
        for ob, kind, detail in check_window(w["sc"], run_window(w["sc"])):
            res.violation(ob, [ob, kind, "probe=" + w["sc"]["probe"], "disturb=" + str(w["sc"]["disturb"]), "buf>0" if w["sc"]["buf"] else "unbounded"], detail, w)
        return res.violations
    res = Result()
    ch = Chooser(w["choices"])
    judge(w["cfg"], ch, run_schedule(w["cfg"], ch), res, set())
    return res.violations


RULE += " Configurations also use send_from with an async source that is suspended (at a gate of its own) before every item and before it ends. A late-comer drains every closed channel (O2b: an item whose send returned before close() is never lost for good). Directed 'window' scenarios: with 1-2 receivers blocked, send / close / a second receiver or a done() poll arriving 0..3 loop iterations later / cancel or timeout of the woken receiver happen in one step of the driving coroutine (3528 scenarios); 'backlog' scenarios: 10..200 items queued before the only receiver starts, cancel / timeout after 1..3 loop iterations (288 scenarios)."
