"""C19 Name mapping is total and safe, and JSON keys map back to their fields."""
from __future__ import annotations

import builtins
import dataclasses
import itertools
import json
import keyword
import random
import re

from .. import corpus
from ..build import Build, BuildError
from ..core import Result

PROP = "C19"
LEVEL = "exploration"
RULE = ("exhaustive over identifiers up to a fixed length on the alphabet {a, B, 1, _} (first character a letter; "
        "leading-underscore identifiers separately), all Python keywords / soft keywords / builtins and a corpus of "
        "real-world names: (a) pythonize_field_name / pythonize_method_name / pythonize_class_name / "
        "pythonize_enum_member_name / safe_snake_case give a valid non-keyword identifier and are idempotent; (b) a "
        "one-field message class named as the plugin would name the field is built with the public field API and the key "
        "to_dict emits for it (CAMEL and SNAKE casing) as well as the original proto name must be mapped back by from_dict "
        "(classmethod and instance form) and from_pydict with the value preserved; (c) a sample goes through real protoc + "
        "plugin: the generated field names are the predicted ones and the module imports. "
        "(d) whole generated packages (types named like names the runtime imports, deprecated fields whose proto name is not their Python name, odd map / nested names, builtin-named fields under typing.310) are constructed and round-tripped through to_dict / from_dict, and every message-typed field that comes back must be an instance of the class declared for it; enum-member names whose remainder after the stripped prefix needs the guard; the field as oneof member / only field of a sub-message; another class sees every key first. distinct = distinct identifiers.")
ASSUMPTIONS = [
    "an identifier is 'legal' if it matches protoc's [A-Za-z_][A-Za-z0-9_]*; the protoc sample confirms acceptance for the sampled ones",
    "name shapes are classified syntactically (digits after an underscore, one-letter words, capitals ...) for mechanism signatures",
]
FLOORS = {"quick": {"identifiers": 2500, "key_roundtrips": 15000}, "thorough": {"identifiers": 40000, "key_roundtrips": 250000}}
ANCHORS = ['snake_case', 'pascal_case', 'camel_case', 'sanitize_name', 'safe_snake_case', 'pythonize_field_name', 'pythonize_class_name', 'Message._from_dict_init']
CONTRACTS = []

CORPUS = ["address_line_1", "ipv4_address", "x_y_z", "HTTPStatus", "fooBar", "foo_bar", "FooBar", "foo__bar", "foo_", "_foo",
          "user_id", "userID", "UserID", "sha256sum", "sha256_sum", "a", "A", "a1", "a_1", "a1_b2", "v_2", "line_2_text",
          "camelCaseName", "UPPER_CASE", "Mixed_Case", "x2y", "utf8", "utf_8", "int32_value", "is_ok", "class_", "type_url",
          "json_name", "oneof_index", "proto3_optional", "deprecated_legacy_json_field_conflicts", "GetUInt64", "kabobCase",
          "trailing__", "A_B_C", "a_b_c", "aB", "Ab", "ABc", "AbC", "a_B", "A_b", "iOS", "macOS", "e2e", "k8s", "s3_bucket",
          "field1", "field_1", "Field1", "FIELD_1", "f1eld", "l10n", "i18n_key", "SHA256sum", "MD5hash", "HTTP2xx", "UTF8string",
          "display_name", "displayName", "DisplayName", "page_token", "next_page_token", "etag", "uid", "create_time",
          "_2fa", "_1st", "_3", "_1", "__1", "_9lives", "_", "__", "_a1"]


def plan(tier, seed):
    L = 6 if tier == "quick" else 8
    parts = 8 if tier == "quick" else 16
    shards = [{"kind": "exhaustive", "max_len": L, "part": [i, parts]} for i in range(parts)]
    shards.append({"kind": "lists"})
    shards.append({"kind": "random", "seed": seed, "n": 600 if tier == "quick" else 20000})
    shards.append({"kind": "protoc", "seed": seed, "n": 40 if tier == "quick" else 400})
    # names through the REAL plugin and runtime: type names equal to names the runtime imports, deprecated fields whose
    # proto name is not their Python name, builtin-named fields under typing.310 -- every message is constructed and its
    # to_dict output fed back to from_dict
    for it, opts in (({"kind": "extra", "name": "named_like_library"}, ""), ({"kind": "extra", "name": "deprecated_rpc_only"}, ""),
                     ({"kind": "features"}, ""), ({"kind": "features"}, "typing.310"), ({"kind": "extra", "name": "odd_map_and_nested_names"}, ""), ({"kind": "extra", "name": "named_like_library"}, "typing.310")):
        shards.append({"kind": "generated", "item": it, "opts": opts, "seed": seed})
    shards.append({"kind": "wide"})
    return shards


def shape(x: str) -> str:
    """syntactic class of an identifier (for mechanism signatures)"""
    c = []
    if keyword.iskeyword(x) or keyword.issoftkeyword(x) or x in ("None", "True", "False"):
        c.append("keyword")
    if re.fullmatch(r"_+", x):
        return "only-underscores"
    if x.startswith("_"):
        c.append("leading-underscore")
    if x.endswith("_"):
        c.append("trailing-underscore")
    if "__" in x.strip("_"):
        c.append("double-underscore")
    if re.search(r"_\d", x):
        c.append("digit-after-underscore")
    if re.search(r"\d[A-Za-z]", x):
        c.append("letter-after-digit")
    if re.search(r"[A-Z]", x):
        c.append("capitals")
    words = [wd for wd in re.split(r"_+", x.strip("_")) if wd]
    if any(len(wd) == 1 for wd in words) and len(words) > 1:
        c.append("one-letter-word")
    return "+".join(c) or "plain"


def result_class(x: str, y) -> str:
    """mechanism class of a mapping result (for class / method / field name functions)"""
    if not isinstance(y, str):
        return "not-a-string"
    c = []
    if y in ("None", "True", "False") or keyword.iskeyword(y):
        c.append("result-is-keyword")
    if y[:1].isdigit():
        c.append("result-starts-with-digit")
    if y == "":
        c.append("result-empty")
    if re.search(r"[A-Z]{2}", y):
        c.append("adjacent-capitals-in-result")
    return "+".join(c) or "other:" + shape(x)


def shape_py(py: str) -> str:
    """features of a (snake_case) python field name that matter for the camelCase round trip"""
    c = []
    if re.search(r"_\d", py):
        c.append("digit-after-underscore")
    words = [wd for wd in re.split(r"_+", py.strip("_")) if wd]
    if len(words) > 1 and any(len(wd) == 1 for wd in words):
        c.append("one-letter-word")
    if py.startswith("_"):
        c.append("leading-underscore")
    return "+".join(c) or "plain"


# Frozen copy of the documented word-splitting rule (betterproto.casing, pinned commit), used ONLY to decide whether
# a failing key belongs to the recorded design-level finding KF12; it is never the oracle.  Classifying by the tree's
# own output would let a change of the splitting rule hide inside the known class.
_R_SYMBOLS, _R_WORD, _R_WORD_UPPER = "[^a-zA-Z0-9]*", "[A-Z]*[a-z]*[0-9]*", "[A-Z]+(?![a-z])[0-9]*"


def ref_snake(x: str) -> str:
    def sub(g):
        if not g[3]:
            return ""
        return ("" if g[1] is not None else "_") + g[3].lower()

    return re.sub(f"(^)?({_R_SYMBOLS})({_R_WORD_UPPER}|{_R_WORD})", sub, x)


API_NAMES = ["parse", "load", "dump", "is_set", "to_json", "from_json", "to_pydict", "FromString", "SerializeToString",
             "parse_", "Parse", "isSet", "toJson"]  # Message API names the harness itself does not call on the class


class _Bystander:
    cls = None


def _bystander(bp):
    """another message type (no field in common with any tested one) that sees every key first -- unknown keys are
    legal and ignored, and must not influence how a different class maps the same key"""
    if _Bystander.cls is None:
        _Bystander.cls = dataclasses.make_dataclass("Bystander", [("zq_unrelated_zq", int, bp.int32_field(1))], bases=(bp.Message,),
                                                    eq=False, repr=False)
    return _Bystander.cls


def ident_ok(s) -> bool:
    return isinstance(s, str) and s.isidentifier() and not keyword.iskeyword(s)


def check_identifier(x: str, res: Result, naming, bp):
    res.counters["identifiers"] += 1
    res.evaluations += 1
    res.distinct_extra += 1
    sh = shape(x)
    w = {"ident": x}
    fns = {
        "pythonize_field_name": naming.pythonize_field_name,
        "pythonize_method_name": naming.pythonize_method_name,
        "pythonize_class_name": naming.pythonize_class_name,
        "safe_snake_case": bp.casing.safe_snake_case,
    }
    for fname, fn in fns.items():
        try:
            y = fn(x)
        except Exception as e:
            res.violation("total", [fname, sh, "raised:" + type(e).__name__], f"{fname}({x!r}) raised {e!r}", w)
            continue
        if not ident_ok(y):
            kind = "keyword" if isinstance(y, str) and keyword.iskeyword(y) else "not-an-identifier"
            res.violation("safe", [fname, result_class(x, y), kind], f"{fname}({x!r}) = {y!r}", w)
            continue
        try:
            z = fn(y)
        except Exception as e:
            z = f"raised:{type(e).__name__}"
        if z != y:
            res.violation("idempotent", [fname, result_class(x, y), "f(f(x))!=f(x)"], f"{fname}({x!r}) = {y!r} but {fname}({y!r}) = {z!r}", w)
    # enum member names (enum name Color / prefix COLOR_)
    try:
        y = naming.pythonize_enum_member_name(x.upper(), "Color")
        if not ident_ok(y):
            res.violation("safe", ["pythonize_enum_member_name", sh, "not-an-identifier"], f"member {x.upper()!r} of enum Color -> {y!r}", w)
        y2 = naming.pythonize_enum_member_name("COLOR_" + x.upper(), "Color")
        if not ident_ok(y2):
            res.violation("safe", ["pythonize_enum_member_name", sh + "+prefixed", "not-an-identifier"], f"member {'COLOR_' + x.upper()!r} of enum Color -> {y2!r}", w)
    except Exception as e:
        res.violation("total", ["pythonize_enum_member_name", sh, "raised:" + type(e).__name__], f"{x!r}: {e!r}", w)
    # members whose remainder after the stripped enum-name prefix needs the guard itself (digit first, keyword)
    for enum_name, prefix in (("Color", "COLOR_"), ("HTTPStatus", "HTTP_STATUS_"), ("Version", "VERSION_")):
        # (value names need not be upper case: the prefix / the remainder in lower and mixed case as well)
        for member in (prefix + "1" + x.upper(), prefix + x, prefix + x.upper() + "_2_0", prefix + "_" + x,
                       prefix.lower() + x.lower(), prefix.lower() + x, prefix.title() + x.lower(), prefix + x.lower()):
            try:
                y = naming.pythonize_enum_member_name(member, enum_name)
            except Exception as e:
                res.violation("total", ["pythonize_enum_member_name", "prefixed-remainder", "raised:" + type(e).__name__], f"{member!r} of {enum_name}: {e!r}", w)
                continue
            res.counters["enum_member_names"] += 1
            if not ident_ok(y):
                rem = member[len(prefix):]
                cls_ = "remainder-starts-with-digit" if rem[:1].isdigit() else ("remainder-is-keyword" if keyword.iskeyword(rem) or keyword.iskeyword(rem.lower()) else "other")
                res.violation("safe", ["pythonize_enum_member_name", cls_, "not-an-identifier"], f"member {member!r} of enum {enum_name} -> {y!r}", w)
    # (b) keys map back
    try:
        py = naming.pythonize_field_name(x)
    except Exception:
        return
    if not ident_ok(py):
        return
    try:
        cls = dataclasses.make_dataclass("OneField", [(py, int, bp.int32_field(1))], bases=(bp.Message,), eq=False, repr=False)
    except Exception as e:
        res.violation("usable", ["make-class", sh, "raised:" + type(e).__name__], f"field name {py!r} (from {x!r}) cannot carry a field: {e!r}", w)
        return
    m = cls(**{py: 42})
    _check_positions(x, py, res, bp, w)
    sh = shape_py(ref_snake(x))
    if ref_snake(x) != bp.casing.snake_case(x):
        res.counters["snake_case_differs_from_frozen_rule"] += 1
    by = _bystander(bp)
    keys = {}
    for cname in ("CAMEL", "SNAKE"):
        try:
            d = m.to_dict(casing=getattr(bp.Casing, cname))
            if len(d) != 1:
                res.violation("key", ["to_dict-" + cname, sh, "field-not-emitted"], f"{x!r} -> field {py!r}: to_dict = {d}", w)
                continue
            keys[cname] = next(iter(d))
        except Exception as e:
            res.violation("key", ["to_dict-" + cname, sh, "raised:" + type(e).__name__], f"{x!r}: {e!r}", w)
    keys["ORIGINAL"] = x
    maps_back_plainly = set(keys)
    for kname, key in keys.items():
        for form in ("classmethod", "instance", "from_pydict"):
            res.counters["key_roundtrips"] += 1
            try:
                if form == "classmethod":
                    try:
                        by.from_dict({key: 41})
                    except Exception:
                        pass
                    m2 = cls.from_dict({key: 42})
                elif form == "instance":
                    m2 = cls().from_dict({key: 42})
                else:
                    m2 = cls().from_pydict({key: 42})
                got = getattr(m2, py)
            except Exception as e:
                maps_back_plainly.discard(kname)
                res.violation("key", ["maps-back:" + kname, sh, "raised:" + type(e).__name__], f"key {key!r} for field {py!r} (proto {x!r}) via {form}: {e!r}", w)
                continue
            if got != 42:
                maps_back_plainly.discard(kname)
                res.violation("key", ["maps-back:" + kname, sh, "field-dropped"],
                              f"proto field {x!r} -> python {py!r}: key {key!r} ({kname}) is not mapped back by {form} (value silently dropped)", w)
    # order: a class whose FIRST sight of every key spelling is a JSON null (what to_dict(include_default_values=True) prints
    # for unset optional / message fields) or a value of an unknown key, and only then the real value
    try:
        cls2 = dataclasses.make_dataclass("OneFieldNullFirst", [(py, int, bp.int32_field(1))], bases=(bp.Message,), eq=False, repr=False)
        for kname, key in keys.items():
            if kname not in maps_back_plainly:
                continue  # a key that does not map back anyway is the business of the loop above
            res.counters["key_roundtrips_after_null"] += 1
            cls2().from_dict({key: None, "vfNoSuchField": 1})
            cls2.from_dict({key: None})
            got = [getattr(cls2().from_dict({key: 42}), py), getattr(cls2.from_dict({key: 42}), py), getattr(cls2().from_pydict({key: 42}), py)]
            if got != [42, 42, 42]:
                res.violation("key", ["maps-back-after-null:" + kname, sh, "field-dropped"],
                              f"proto field {x!r} -> python {py!r}: key {key!r} ({kname}) first seen with a null is afterwards not mapped back: {got}", w)
    except Exception as e:
        res.violation("key", ["maps-back-after-null", sh, "raised:" + type(e).__name__], f"{x!r}: {e!r}", w)


def _check_positions(x, py, res: Result, bp, w):
    """the same name as a oneof member and as the only field set inside a sub-message: set by attribute assignment /
    instance from_dict, the key must appear in to_dict and come back -- whatever the name looks like"""
    other = "zq_other_zq" if py != "zq_other_zq" else "zq_other2_zq"
    try:
        One = dataclasses.make_dataclass("OneOfHolder", [(py, int, bp.int32_field(1, group="g")), (other, str, bp.string_field(2, group="g"))],
                                         bases=(bp.Message,), eq=False, repr=False)
        Inner = dataclasses.make_dataclass("InnerHolder", [(py, int, bp.int32_field(1))], bases=(bp.Message,), eq=False, repr=False)
        Outer = dataclasses.make_dataclass("OuterHolder", [("zq_inner_zq", Inner, bp.message_field(1))], bases=(bp.Message,), eq=False, repr=False)
    except Exception as e:
        res.violation("usable", ["make-class", shape(x), "raised:" + type(e).__name__], f"field name {py!r}: {e!r}", w)
        return
    sh = shape_py(ref_snake(x))
    res.counters["position_roundtrips"] += 1
    try:
        o = One(**{other: "s"})
        setattr(o, py, 42)
        d = o.to_dict(casing=bp.Casing.SNAKE)
        back = One().from_dict(d)
        if bp.which_one_of(o, "g")[0] != py or len(d) != 1 or bp.which_one_of(back, "g") != (py, 42) or back.to_dict(casing=bp.Casing.SNAKE) != d:
            res.violation("key", ["oneof-member-by-assignment", sh, "field-dropped"],
                          f"proto field {x!r} -> python {py!r} as a oneof member set by assignment: which_one_of={bp.which_one_of(o, 'g')} to_dict={d} "
                          f"after instance from_dict: {bp.which_one_of(back, 'g')}", w)
        o2 = One(**{other: "s"}).from_dict({next(iter(d), py): 42}) if d else None
        if o2 is not None and bp.which_one_of(o2, "g") != (py, 42):
            res.violation("key", ["oneof-member-by-instance-from_dict", sh, "field-dropped"],
                          f"proto field {x!r} -> python {py!r}: instance from_dict onto a message with another member selected gives {bp.which_one_of(o2, 'g')}", w)
        out = Outer()
        setattr(out.zq_inner_zq, py, 0)
        setattr(out.zq_inner_zq, py, 7)
        d = out.to_dict(casing=bp.Casing.SNAKE)
        back = Outer().from_dict(d)
        inner_d = d.get("zq_inner_zq")
        if not isinstance(inner_d, dict) or list(inner_d.values()) != [7] or getattr(back.zq_inner_zq, py) != 7:
            res.violation("key", ["only-field-of-a-sub-message", sh, "field-dropped"],
                          f"proto field {x!r} -> python {py!r} as the only field set inside a sub-message: to_dict={d}", w)
    except Exception as e:
        res.violation("key", ["positions", sh, "raised:" + type(e).__name__], f"proto field {x!r} -> python {py!r}: {e!r}", w)


def exhaustive(max_len):
    alpha = "aB1_"
    for L in range(1, max_len + 1):
        for first in "aB_":
            if L == 1:
                yield first
                continue
            for rest in itertools.product(alpha, repeat=L - 1):
                yield first + "".join(rest)


def run_shard(shard) -> Result:
    import betterproto as bp
    import betterproto.casing  # noqa
    from betterproto.compile import naming

    res = Result()
    k = shard["kind"]
    if k == "exhaustive":
        i = 0
        for x in exhaustive(shard["max_len"]):
            i += 1
            if i % shard["part"][1] != shard["part"][0]:
                continue
            check_identifier(x, res, naming, bp)
        res.extra["exhaustive_max_len"] = shard["max_len"]
        res.sample({"exhaustive": f"all identifiers of length <= {shard['max_len']} over {{a,B,1,_}}", "example": "aB_1"})
    elif k == "wide":
        try:
            _wide(res, bp)
        except Exception as e:
            import traceback

            res.inconclusive.append(f"oracle crashed (wide): {type(e).__name__}: {e}\n{traceback.format_exc()[-800:]}")
    elif k == "lists":
        names = set(keyword.kwlist) | set(keyword.softkwlist) | set(dir(builtins)) | set(CORPUS) | set(API_NAMES)
        for x in sorted(names):
            if re.fullmatch(r"[A-Za-z_][A-Za-z0-9_]*", x):
                check_identifier(x, res, naming, bp)
        res.sample({"lists": "keywords + soft keywords + builtins + real-world corpus", "n": len(names)})
    elif k == "random":
        rng = random.Random(f"c19-{shard['seed']}")
        words = ["foo", "bar", "id", "ID", "HTTP", "v", "x", "2", "10", "Url", "URL", "a", "B", "status", "Status", "3d", "ip", "v4"]
        for _ in range(shard["n"]):
            parts = [rng.choice(words) for _ in range(rng.randint(1, 4))]
            x = rng.choice(["_", "", "", ""]).join(parts) if rng.random() < 0.5 else "_".join(parts)
            if rng.random() < 0.1:
                x = "_" + x
            if rng.random() < 0.1:
                x = x + "_"
            if re.fullmatch(r"[A-Za-z_][A-Za-z0-9_]*", x):
                check_identifier(x, res, naming, bp)
    elif k == "protoc":
        _protoc_sample(shard, res, naming)
    elif k == "generated":
        _generated(shard, res)
    return res


def _protoc_sample(shard, res: Result, naming):
    rng = random.Random(f"c19p-{shard['seed']}")
    pool = list(dict.fromkeys(CORPUS + [x for x in itertools.islice(exhaustive(4), 0, None, 3)] + list(keyword.kwlist) + ["list", "type", "int", "str", "_", "__", "_a", "a_"]))
    rng.shuffle(pool)
    pool = pool[: shard["n"]]
    # protoc rejects duplicate json names: one message per field keeps them independent
    lines = ['syntax = "proto3";', "package c19;"]
    for i, x in enumerate(pool):
        lines.append(f"message M{i} {{ int32 {x} = 1; }}")
    b = Build({"names.proto": "\n".join(lines) + "\n"})
    try:
        try:
            b.run_protoc()
        except BuildError as e:
            ok, detail = b.protoc_accepts()
            if not ok:
                res.inconclusive.append(f"protoc rejected the name sample (generator bug): {detail[-300:]}")
            else:
                res.violation("plugin", ["generate", "plugin-failed"], f"plugin failed on a schema of one-field messages: {e.detail[-600:]}", {"idents": pool})
            return
        b.load_descriptors()
        try:
            b.import_all()
        except BuildError as e:
            res.violation("plugin", ["import", "generated-module-does-not-import"], f"{e.detail[-800:]}", {"idents": pool})
            return
        from ..values import attr_names

        for i, x in enumerate(pool):
            res.counters["protoc_names"] += 1
            mi = b.msgs[f".c19.M{i}"]
            cls = b.bp_class(mi.full_name)
            got = attr_names(cls).get(1)
            want = naming.pythonize_field_name(x)
            if got != want:
                res.violation("plugin", ["field-name", shape(x), "differs-from-pythonize_field_name"],
                              f"proto field {x!r}: generated attribute {got!r}, pythonize_field_name gives {want!r}", {"ident": x})
            try:
                m = cls(**{got: 7})
                d = m.to_dict()
                if getattr(cls().from_dict(d), got) != 7:
                    res.violation("key", ["maps-back:CAMEL", shape_py(got), "field-dropped"], f"generated class for proto field {x!r}: key {next(iter(d))!r} not mapped back", {"ident": x})
                jn = mi.fields[0].json_name
                if getattr(cls().from_dict({jn: 7}), got) != 7:
                    res.counters["protoc_json_name_not_mapped_back"] += 1
            except Exception as e:
                res.violation("plugin", ["use", shape(x), "raised:" + type(e).__name__], f"generated class for proto field {x!r}: {e!r}", {"ident": x})
        res.sample({"protoc_sample": pool[:8]})
    finally:
        b.cleanup()


def _wide(res: Result, bp):
    """a generated message of 70 fields whose proto names are camelCase / capitals: every key that maps back to its field on
    a ONE-field class of the same attribute name (the key to_dict emits in either casing, the original proto name) must map
    back on the wide class too -- the number of fields of a message is not supposed to matter"""
    import dataclasses

    from .. import corpus
    from ..values import attr_names

    b = corpus.build_item({"kind": "extra", "name": "wide_package"})
    try:
        mi = b.msgs[".vfwide.big.WideNames"]
        cls = b.bp_class(mi.full_name)
        names = attr_names(cls)
        for fi in mi.fields:
            py = names[fi.number]
            v = "v" if fi.kind == "string" else 7
            narrow = dataclasses.make_dataclass("Narrow", [(py, type(v), bp.string_field(1) if fi.kind == "string" else bp.int32_field(1))],
                                                bases=(bp.Message,), eq=False, repr=False)
            keys = {"ORIGINAL": fi.name}
            for cname in ("CAMEL", "SNAKE"):
                d = cls(**{py: v}).to_dict(casing=getattr(bp.Casing, cname))
                if len(d) == 1:
                    keys[cname] = next(iter(d))
            for kname, key in keys.items():
                res.counters["wide_key_roundtrips"] += 1
                w = {"kind": "wide", "field": fi.name, "key": key}
                try:
                    if getattr(narrow().from_dict({key: v}), py) != v:
                        res.counters["wide_keys_not_mapped_back_on_a_one_field_class_either"] += 1
                        continue
                    got = [getattr(cls().from_dict({key: v}), py), getattr(cls.from_dict({key: v}), py), getattr(cls().from_pydict({key: v}), py)]
                except Exception as e:
                    res.violation("key", ["wide-message:" + kname, shape(fi.name), "raised:" + type(e).__name__], f"{fi.name!r}: {e!r}", w)
                    continue
                if got != [v, v, v]:
                    res.violation("key", ["wide-message:" + kname, shape(fi.name), "field-dropped"],
                                  f"proto field {fi.name!r} of a 70-field message: key {key!r} ({kname}) maps back on a one-field class but not here: {got}", w)
        res.evaluations += 1
        res.distinct.add("wide")
    finally:
        b.cleanup()


def _generated(shard, res: Result):
    import warnings

    from ..values import BP, Gen

    w0 = {"kind": "generated", "item": shard["item"], "opts": shard["opts"], "seed": shard["seed"]}
    try:
        b = corpus.build_item(shard["item"], shard["opts"])
    except BuildError as e:
        # builtin-named fields under the non-default options are C18's known findings; the default options must build
        if shard["opts"]:
            res.note("generated-set-unbuildable-under-option")
            return
        res.violation("plugin", ["generate-or-import", corpus.item_name(shard["item"]), e.stage], f"{e.detail[-700:]}", w0)
        return
    try:
        rng = random.Random(f"c19g-{shard['seed']}")
        g = Gen(b, rng, max_depth=2)
        bpk = BP(b)
        import betterproto as bp

        for mi in b.user_messages():
            cls = b.bp_class(mi.full_name)
            for shape_ in ("maximal", "random", "random"):
                tree = g.tree(mi, 0, shape_)
                res.counters["generated_roundtrips"] += 1
                res.evaluations += 1
                res.distinct_extra += 1
                ww = dict(w0, msg=mi.full_name)
                try:
                    with warnings.catch_warnings():
                        warnings.simplefilter("ignore")
                        m = bpk.make(mi, tree)
                        data = bytes(m)
                except Exception as e:
                    res.violation("usable", ["construct", mi.full_name.rsplit(".", 1)[-1], "raised:" + type(e).__name__],
                                  f"{corpus.item_name(shard['item'])} [{shard['opts'] or 'default'}]: {mi.full_name} cannot be constructed / encoded: {e!r}", ww)
                    break
                for cname in ("CAMEL", "SNAKE"):
                    try:
                        with warnings.catch_warnings():
                            warnings.simplefilter("ignore")
                            d = m.to_dict(casing=getattr(bp.Casing, cname))
                            back = cls().from_dict(json.loads(json.dumps(d)))
                            try:
                                same = bytes(back) == data
                            except TypeError:
                                same = True  # integer map keys come back as strings (C04's known finding): not a name matter
                                res.note("generated-json-not-serialisable")
                    except TypeError:
                        res.note("generated-json-not-serialisable")  # bytes / datetime in maps: C04's known findings
                        continue
                    except Exception as e:
                        res.violation("key", ["generated-roundtrip:" + cname, mi.full_name.rsplit(".", 1)[-1], "raised:" + type(e).__name__],
                                      f"{mi.full_name} [{shard['opts'] or 'default'}]: {e!r}", ww)
                        continue
                    # every message-typed field / map value that came back must be an instance of the class generated for
                    # ITS declared type (a name collision between fields must not make one field borrow another's class)
                    from ..values import attr_names as _an
                    names_ = _an(cls)
                    for fi in mi.fields:
                        inner = fi.map_value if fi.label == "map" else fi
                        if inner.kind != "message" or inner.wkt or fi.number not in names_ or fi.number not in tree:
                            continue
                        try:
                            v = getattr(back, names_[fi.number])
                        except AttributeError:
                            continue
                        want_cls = b.bp_class(inner.type_name)
                        vals = list(v.values()) if fi.label == "map" else (list(v) if fi.label == "repeated" else [v])
                        wrong = [type(x).__name__ for x in vals if x is not None and type(x) is not want_cls]
                        if wrong:
                            res.violation("key", ["generated-roundtrip:" + cname, "message-class-of-field", "wrong-class"],
                                          f"{mi.full_name}.{fi.name} [{shard['opts'] or 'default'}]: from_dict built {wrong[:3]} where {want_cls.__name__} is declared", ww)
                    if not same:
                        res.counters["generated_roundtrip_differs"] += 1
                        lost = [k for k in d if k not in back.to_dict(casing=getattr(bp.Casing, cname))]
                        if lost:
                            res.violation("key", ["generated-roundtrip:" + cname, mi.full_name.rsplit(".", 1)[-1], "field-dropped"],
                                          f"{mi.full_name} [{shard['opts'] or 'default'}]: keys {lost[:5]} of to_dict are not mapped back by from_dict", ww)
        res.sample({"generated": corpus.item_name(shard["item"]), "options": shard["opts"] or "default", "messages": len(b.user_messages())})
    finally:
        b.cleanup()


def replay(w):
    import betterproto as bp
    import betterproto.casing  # noqa
    from betterproto.compile import naming

    res = Result()
    if w.get("kind") == "wide":
        _wide(res, bp)
    elif w.get("kind") == "generated":
        _generated(w, res)
    elif "ident" in w:
        check_identifier(w["ident"], res, naming, bp)
    return res.violations


RULE += ' Enum value names with the enum-name prefix / remainder in lower, title and mixed case; every key spelling first seen with a JSON null, then with a value; the keys of a 70-field generated message (original proto names included) map back like on a one-field class.'
