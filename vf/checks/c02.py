"""C02 Wire interoperability with the reference protobuf implementation."""
from __future__ import annotations

from .. import spec
from ..core import Result
from ..valuework import plan_items, replay_value, run_value_shard
from ..values import diff_signature, diff_trees
from ..wiregen import LEGAL, WireGen

PROP = "C02"
LEVEL = "exploration"
RULE = ("value trees (matrix / random / maximal) over matrix schema, G-schema sets and tests/inputs. Encode direction: "
        "bytes(betterproto message) decoded by google.protobuf (private DescriptorPool built from the same protoc run) "
        "must give the tree. Decode direction: the reference's serialisation E0 and legal re-encodings E of it produced "
        "by the independent spec-level codec (permute records recursively, packed<->unpacked, packed split into chunks "
        "incl. an empty chunk, non-minimal varints in values / lengths / tags, duplicated singular scalars and other "
        "oneof members before the final one, interleaved unknown records); the oracle is the reference decoder's view of "
        "the very same bytes. Interleaved records may also carry the number of a KNOWN field with a wire type that does not fit it (the reference keeps those as unknown fields). distinct = distinct (schema, type, tree) and (op, bytes) pairs.")
ASSUMPTIONS = [
    "a singular message-typed field is never duplicated (merge of duplicated sub-messages is outside the property's list)",
    "an encoding is used only if google.protobuf accepts it; rejected ones are counted as discards",
    "Timestamp/Duration nanos are multiples of 1000; floats are float32-exact; -0.0 identified with +0.0",
    "ruff is replaced by an identity stand-in when the plugin formats its output",
]
FLOORS = {"quick": {"evaluations": 2000, "decode_compared": 8000, "encode_compared": 2000},
          "thorough": {"evaluations": 60000, "decode_compared": 400000, "encode_compared": 60000}}
ANCHORS = ['Message.dump', 'Message.load', 'Message._postprocess_single', 'dump_varint', 'Message.__setattr__', '_Timestamp.from_datetime']
CONTRACTS = ["bytes"]


def plan(tier, seed):
    return plan_items(tier, seed, n_gen_quick=10, n_gen_thorough=250, n_quick=100, n_thorough=700)


def check_case(b, bp, ref, mi, tree, res: Result, w, rng):
    cls = b.bp_class(mi.full_name)
    rcls = b.ref_class(mi.full_name)
    # ---- encode direction (built through the constructor and by in-place filling)
    for route in ("ctor", "inplace"):
      try:
        data = bytes(bp.make(mi, tree, route))
      except Exception as e:
        res.violation("encode-raises", ["encode", route, "raised:" + type(e).__name__], f"{mi.full_name}: bytes() raised {e!r}", w)
        data = None
      if data is not None:
          try:
              r = rcls.FromString(data)
          except Exception as e:
              res.violation("encode", ["reference-rejects", type(e).__name__],
                            f"{mi.full_name}: google.protobuf rejects betterproto's bytes {data.hex()[:200]}: {e!r}", w)
              r = None
          if r is not None:
              res.note("encode_compared")
              for d in diff_trees(b, mi, tree, ref.norm(mi, r)):
                  res.violation("encode", ([] if route == "ctor" else [route]) + diff_signature(b, d),
                                f"{mi.full_name}: reference decodes betterproto bytes differently: {d.short()}", w)
    # ---- decode direction
    e0 = ref.make(mi, tree).SerializeToString()
    _decode_one(b, bp, ref, mi, cls, rcls, e0, "identity", res, w)
    wg = WireGen(b, rng)
    ops = list(LEGAL)
    if w.get("op"):
        ops = [w["op"]]
    for op in ops:
        reps = 2 if op in ("permute", "chunk_split", "dup_scalar", "unknown_interleave") else 1
        for _ in range(reps):
            st = rng.getstate()
            try:
                e, applied = wg.transform(mi, e0, op)
            except spec.WireError as ex:
                res.inconclusive.append(f"spec codec could not read the reference's own bytes: {ex!r}")
                return
            if not applied:
                res.discards["op-not-applicable:" + op] += 1
                continue
            _decode_one(b, bp, ref, mi, cls, rcls, e, op, res, dict(w, op=op, bytes=e.hex()))


def _decode_one(b, bp, ref, mi, cls, rcls, e: bytes, op: str, res: Result, w):
    try:
        r = rcls.FromString(e)
    except Exception:
        res.discards["reference-rejected:" + op] += 1
        return
    expected = ref.norm(mi, r)
    res.note("decode_compared")
    res.note("decode:" + op)
    res.distinct.add(f"{op}:{hash(e)}")
    try:
        m = cls().parse(e)
        problems = []
        got = bp.norm(mi, m, problems)
    except Exception as ex:
        res.violation("decode-raises", [op, "raised:" + type(ex).__name__],
                      f"{mi.full_name}: parse of a {op} encoding raised {ex!r}; bytes={e.hex()[:300]}", w)
        return
    for p, what in problems:
        res.violation("decode", [op, "decoded-type", what], f"{mi.full_name}{p}: {what}; bytes={e.hex()[:200]}", w)
    for d in diff_trees(b, mi, expected, got):
        res.violation("decode", [op] + diff_signature(b, d),
                      f"{mi.full_name}: betterproto decodes a {op} encoding differently from the reference: {d.short()}; bytes={e.hex()[:300]}", w)


def run_shard(shard):
    return run_value_shard(shard, PROP, check_case, CONTRACTS)


def replay(w):
    if w.get("bytes") and w.get("op"):
        # replay the exact encoding
        from .. import corpus
        from ..values import BP, REF

        res = Result()
        b = corpus.build_item(w["item"])
        try:
            mi = b.msgs[w["msg"]]
            _decode_one(b, BP(b), REF(b), mi, b.bp_class(mi.full_name), b.ref_class(mi.full_name),
                        bytes.fromhex(w["bytes"]), w["op"], res, w)
        finally:
            b.cleanup()
        return res.violations
    return replay_value(w, check_case, PROP, CONTRACTS)


RULE += " Re-encodings include oneof_alternate (X Y X: several occurrences of members of one oneof in alternation). Also 'large' shards (one field per case with 127..70000 bytes / 31..2100 elements / 31..257 entries, on generated and hand-built classes) and an 'after failures' shard (330 failed nested decodes first)."
