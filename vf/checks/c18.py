"""C18 Every supported plugin option yields importable, behaviourally identical code."""
from __future__ import annotations

import dataclasses
import random
import traceback

from .. import corpus
from ..build import Build, BuildError
from ..core import Result
from ..values import attr_names
from ..values import hints_of
from ..values import BP, Gen, tree_to_json

PROP = "C18"
LEVEL = "translation_validation"
LEVEL_TEXT = ("differential translation validation by observation: each program is compiled under all 3 x 2 option combinations "
              "and every variant is compared with the default configuration on structure (classes, numbers, types, groups, enum "
              "values, service routes) and on behaviour (bytes and JSON of identical value trees); held on the programs explored")
RULE = ("programs = the C03 population (seeded G-schema sets incl. services of every streaming cardinality, optional fields, "
        "maps, cross-package references, keyword/builtin names) + the matrix schema + tests/inputs service directories, each "
        "generated under {typing.direct, typing.root, typing.310} x {standard, pydantic_dataclasses}. Per variant: plugin "
        "succeeds, every package imports, same class set, per class same field numbers / proto types / groups / map types / "
        "wraps / resolved types (Optional stripped) / enum values, same service routes and cardinalities; then seeded value "
        "trees are instantiated in every variant and bytes() and to_json() compared with the default variant. "
        "The decode direction is compared too: parse(default variant's bytes) and from_json(default variant's JSON) must re-encode / print the same in every variant. Empty messages are passed freshly constructed as well as received. disagreements_checked = structural + behavioural comparisons.")
ASSUMPTIONS = [
    "FieldMetadata.optional and the Optional[...] wrapper of pydantic oneof members differ by design and are not compared",
    "a value the pydantic validators reject is recorded per field kind and judged only when the same value is accepted by the standard variant "
    "and lies inside the declared protobuf range",
    "ruff is replaced by an identity stand-in when the plugin formats its output",
]
FLOORS = {"quick": {"programs": 8, "variants": 40, "comparisons": 3000}, "thorough": {"programs": 100, "variants": 500, "comparisons": 60000}}
PLUGIN_ANCHORS = ['generate_code', 'NoTyping310TypingCompiler.optional', 'TypingImportTypingCompiler.optional', 'DirectImportTypingCompiler.optional', 'PydanticOneOfFieldCompiler.optional']
CONTRACTS = []
CONFIGS = [f"{t}{p}" for t in ("typing.direct", "typing.root", "typing.310") for p in ("", ",pydantic_dataclasses")]


def plan(tier, seed):
    shards = [{"item": {"kind": "matrix"}, "seed": seed, "n": 25 if tier == "quick" else 300},
              {"item": {"kind": "features"}, "seed": seed, "n": 10}, {"item": {"kind": "features", "apart": True}, "seed": seed, "n": 10}]
    for nm in corpus.extra_names():
        if nm == "wide_package":
            continue  # (a 1100-field package six times over costs minutes; its subject, the size of ONE module, is C03's)
        shards.append({"item": {"kind": "extra", "name": nm}, "seed": seed, "n": 10, "each_first": True})
        if len(corpus.EXTRA_SETS[nm]) > 1:  # "only the root files on the command line" differs from "all" only for several files
            shards.append({"item": {"kind": "extra", "name": nm, "cmdline": "roots"}, "seed": seed, "n": 6, "each_first": False})
    for i in range(8 if tier == "quick" else 120):
        shards.append({"item": {"kind": "gen", "seed": seed * 100003 + 9000 + i,
                                "opts": {"names": "hostile" if i % 4 == 3 else "keywords", "services": True}},
                       "seed": seed * 17 + i, "n": 12 if tier == "quick" else 60})
    for d in ("service", "example_service", "googletypes_response", "import_service_input_message", "service_separate_packages",
              "oneof_enum", "proto3_field_presence", "googletypes_request"):
        if d in corpus.inputs_dirs():
            shards.append({"item": {"kind": "inputs", "dir": d}, "seed": seed, "n": 8 if tier == "quick" else 40})
    return shards


def _strip_opt(h):
    args = getattr(h, "__args__", None)
    if args and type(None) in args:
        rest = [a for a in args if a is not type(None)]
        if len(rest) == 1:
            return rest[0]
    return h


def _type_repr(h) -> str:
    h = _strip_opt(h)
    org = getattr(h, "__origin__", None)
    if org in (list, dict):
        return f"{org.__name__}[{', '.join(_type_repr(a) for a in h.__args__)}]"
    if isinstance(h, type):
        mod = h.__module__
        # generated modules differ by their unique root only
        mod = mod.split(".", 1)[1] if mod.startswith("vfg_") and "." in mod else ("<root>" if mod.startswith("vfg_") else mod)
        mod = mod.replace("betterproto.lib.pydantic.", "betterproto.lib.").replace("betterproto.lib.std.", "betterproto.lib.")
        return f"{mod}.{h.__name__}"
    return repr(h)


def structure(b: Build):
    """comparable description of everything generated"""
    import betterproto

    out = {"messages": {}, "enums": {}, "services": {}}
    for mi in b.user_messages():
        c = b.bp_class(mi.full_name)
        hints = hints_of(c)
        fl = {}
        for f in dataclasses.fields(c):
            meta = f.metadata.get("betterproto")
            if meta is None:
                continue
            fl[meta.number] = {"name": f.name, "proto_type": meta.proto_type, "group": meta.group, "map_types": list(meta.map_types or ()),
                               "wraps": meta.wraps, "type": _type_repr(hints[f.name])}
        out["messages"][mi.full_name] = {"class": c.__name__, "fields": fl}
    for full in b.enums:
        if full.startswith(".google.protobuf."):
            continue
        E = b.bp_enum(full)
        out["enums"][full] = {"class": E.__name__, "members": sorted((k, int(v)) for k, v in E.__members__.items())}
    for s in b.services:
        mod = b.module(s.package)
        import re

        base = next((o for n, o in vars(mod).items() if isinstance(o, type) and n.lower() == (re.sub(r"[^A-Za-z0-9]", "", s.name) + "Base").lower()), None)
        stub = next((o for n, o in vars(mod).items() if isinstance(o, type) and n.lower() == (re.sub(r"[^A-Za-z0-9]", "", s.name) + "Stub").lower()), None)
        if base is None or stub is None:
            out["services"][s.full_name] = {"missing": True}
            continue
        mp = base().__mapping__()
        out["services"][s.full_name] = {
            "routes": {r: [h.cardinality.name, _type_repr(h.request_type), _type_repr(h.reply_type)] for r, h in sorted(mp.items())},
            "stub_methods": sorted(n for n in vars(stub) if not n.startswith("_")),
        }
    return out


def run_shard(shard) -> Result:
    res = Result()
    item = shard["item"]
    name = corpus.item_name(item)
    protos = corpus.item_protos(item)
    builds = {}
    w0 = {"item": item}
    try:
        for cfg in CONFIGS:
            b = Build(protos, cfg, cmdline=item.get("cmdline", "all"))
            w = dict(w0, config=cfg)
            res.counters["variants"] += 1
            cfg_sig = cfg.replace("typing.", "")
            try:
                b.run_protoc()
            except BuildError as e:
                if e.stage == "protoc":
                    res.discards["protoc-rejected-schema"] += 1
                    if item.get("kind") != "gen":  # a hand-written set protoc rejects is a harness bug, never a silent skip
                        res.inconclusive.append(f"hand-written program {name} rejected by protoc: {e.detail[-300:]}")
                    b.cleanup()
                    return res
                res.violation("generate", [cfg_sig, "plugin-failed", _exc(e.detail)], f"{name} [{cfg}]: {e.detail[-800:]}", w)
                b.cleanup()
                continue
            b.load_descriptors()
            res.extra["plugin_reach"] = sorted(set(res.extra.get("plugin_reach", [])) | set(b.plugin_reach()))[:400]
            try:
                b.import_all()
            except BuildError as e:
                res.violation("import", [cfg_sig, "generated-package-does-not-import", _exc(e.detail, _import_shape(b, e.detail, cfg))],
                              f"{name} [{cfg}]: {e.detail[-900:]}", w)
                b.cleanup()
                continue
            if shard.get("each_first"):
                for pkg, err in b.import_each_first():
                    res.violation("import", [cfg_sig, "generated-package-does-not-import", "when-imported-first:" + _exc(err)],
                                  f"{name} [{cfg}]: package {pkg or '(root)'} imported first in a fresh interpreter: {err[-700:]}", w)
                res.counters["packages_imported_first"] += len(b.user_packages())
            builds[cfg] = b
        res.counters["programs"] += 1
        res.evaluations += 1
        res.distinct.add(name)
        base_cfg = CONFIGS[0]
        if base_cfg not in builds:
            res.note("default-variant-unavailable")
            return res
        try:
            s0 = structure(builds[base_cfg])
        except Exception as e:
            res.inconclusive.append(f"default variant cannot be described for {name}: {e!r}\n{traceback.format_exc()[-800:]}")
            return res
        for cfg, b in builds.items():
            if cfg == base_cfg:
                continue
            cfg_sig = cfg.replace("typing.", "")
            w = dict(w0, config=cfg)
            try:
                s1 = structure(b)
            except Exception as e:
                res.violation("structure", [cfg_sig, "introspection-raised:" + type(e).__name__, "-"], f"{name} [{cfg}]: {e!r}\n{traceback.format_exc()[-600:]}", w)
                continue
            _compare_structure(s0, s1, cfg_sig, name, cfg, res, w, {m.full_name: m for m in b.user_messages()})
        _compare_behaviour(builds, shard, name, res, w0)
        _compare_histories(builds, shard, name, res, w0)
        _compare_alias_members(builds, name, res, w0)
        if len(res.samples) < 1:
            res.sample({"program": name, "variants_built": sorted(builds), "messages": len(s0["messages"]), "services": len(s0["services"])})
    except Exception as e:
        res.inconclusive.append(f"oracle crashed on {name}: {type(e).__name__}: {e}\n{traceback.format_exc()[-1500:]}")
    finally:
        for b in builds.values():
            b.cleanup()
    return res


def _exc(detail: str, shape: str = "") -> str:
    import re

    m = re.findall(r"^(\w+(?:Error|Exception))\b", detail, flags=re.M)
    return (m[-1] if m else "unknown") + _mech(detail, shape)


def _import_shape(b, detail: str, cfg: str = "pydantic") -> str:
    """shape over the messages of the package whose import failed (the BuildError names the module)"""
    import re

    m = re.match(r"\s*(\S+?):", detail)
    mod = m.group(1) if m else ""
    pkg = mod.split(".", 1)[1] if "." in mod else ""
    # the failing module may be one that the named package imports (circular packages), so the whole program counts
    return shadow_shape(b.user_messages(), cfg)


def _mech(detail: str, shape: str = "") -> str:
    """mechanism class of an error text"""
    if ("'Placeholder' object has no attribute" in detail or "'NoneType' object has no attribute" in detail) and "_eval_type" in detail:
        # "pkg.Type" resolved with the class namespace where a FIELD named like the imported package alias shadows it
        return ":field-name-shadows-import-alias"
    if ("'Placeholder'" in detail or "<PLACEHOLDER>" in detail or "Field(name=" in detail
            or ("Unable to evaluate type annotation" in detail and ("is not subscriptable" in detail or "unsupported operand type(s) for |" in detail))):
        # a field named like a builtin (list, dict, int ...) shadows it when annotations are evaluated
        # with the class namespace (pydantic does that) / later in the class body
        return ":builtin-name-shadowed-by-field" + (":" + shape if shape else "")
    if shape and "none_required" in detail and "Input should be None" in detail:
        # the same shadowing seen through pydantic's validator: `dict[int, int]` / `list[int]` evaluated in a class namespace
        # where `int` is a (oneof / optional) FIELD whose default is None, so the element type became NoneType.  `shape` comes
        # from the schema (shadow_shape), not from the tree's output: it is only non-empty when the message really has a
        # builtin-named field in a position the plugin's qualification rule does not cover
        return ":builtin-name-shadowed-by-field" + ":" + shape
    return ""


_SCALAR_BUILTINS = {"int": ("int32", "int64", "uint32", "uint64", "sint32", "sint64", "fixed32", "fixed64", "sfixed32", "sfixed64"),
                    "float": ("float", "double"), "str": ("string",), "bytes": ("bytes",), "bool": ("bool",)}


def _mentions(f):
    """python builtin type names a field's annotation mentions (before any builtins. qualification)"""
    out = set()
    parts = [f.map_key, f.map_value] if f.label == "map" else [f]
    for x in parts:
        k = x.wkt.split(":")[1] if (x.wkt or "").startswith("wrapper:") else (x.kind if x.wkt is None else None)
        for bn, kinds in _SCALAR_BUILTINS.items():
            if k in kinds:
                out.add(bn)
    return out


def shadow_shape(msgs, cfg: str = "pydantic") -> str:
    """'known-shape' iff some message has a field-name shape for which the PINNED tree already emits an unqualified
    builtin name that a field of the same class shadows.  The plugin qualifies a type with `builtins.` only in plain /
    repeated / optional (and, since the repair, map) annotations of fields declared AFTER the builtin-named field (or
    of that field itself); it never qualifies wrapper annotations, nor the `list[...]` / `dict[...]` containers of
    typing.310.  pydantic evaluates annotations lazily with the class namespace, so there also fields declared BEFORE
    the builtin-named field are hit.  Any other shape showing the shadowing symptom is a different defect."""
    pyd = "pydantic" in cfg
    for mi in msgs:
        names = [f.name for f in mi.fields]
        if pyd and "310" in cfg:
            if "list" in names and any(f.label == "repeated" for f in mi.fields):
                return "known-shape"
            if "dict" in names and any(f.label == "map" for f in mi.fields):
                return "known-shape"
        for fi_idx, F in enumerate(mi.fields):
            if F.name not in _SCALAR_BUILTINS:
                continue
            for gi, G in enumerate(mi.fields):
                if gi == fi_idx or F.name not in _mentions(G):
                    continue
                is_wrapper = (G.wkt or "").startswith("wrapper:")
                if is_wrapper or (pyd and gi < fi_idx):
                    return "known-shape"
    return "other-shape"


def _closure(b, mi, depth=3):
    out, todo = {}, [(mi, 0)]
    while todo:
        m, d = todo.pop()
        if m.full_name in out:
            continue
        out[m.full_name] = m
        if d < depth:
            for f in m.fields:
                inner = f.map_value if f.label == "map" else f
                if inner is not None and inner.kind == "message" and inner.type_name in b.msgs and not inner.type_name.startswith(".google."):
                    todo.append((b.msgs[inner.type_name], d + 1))
    return list(out.values())


def _compare_structure(s0, s1, cfg_sig, name, cfg, res: Result, w, mi_of=None):
    mi_of = mi_of or {}
    for section in ("messages", "enums", "services"):
        res.counters["comparisons"] += 1
        if sorted(s0[section]) != sorted(s1[section]):
            res.violation("structure", [cfg_sig, section, "set-differs"], f"{name} [{cfg}]: {section} {sorted(set(s0[section]) ^ set(s1[section]))[:5]}", w)
    for full, m0 in s0["messages"].items():
        m1 = s1["messages"].get(full)
        if m1 is None:
            continue
        if m0["class"] != m1["class"]:
            res.violation("structure", [cfg_sig, "message", "class-name-differs"], f"{name} [{cfg}]: {full}: {m0['class']} vs {m1['class']}", w)
        if sorted(m0["fields"]) != sorted(m1["fields"]):
            res.violation("structure", [cfg_sig, "message", "field-numbers-differ"], f"{name} [{cfg}]: {full}", w)
            continue
        for num, f0 in m0["fields"].items():
            f1 = m1["fields"][num]
            for key in ("name", "proto_type", "group", "map_types", "wraps", "type"):
                res.counters["comparisons"] += 1
                if f0[key] != f1[key]:
                    mech = _mech(str(f0[key]) + str(f1[key]), shadow_shape([mi_of[full]], "pydantic,310") if full in mi_of else "")
                    res.violation("structure", [cfg_sig, "field-" + key + mech, f0["proto_type"]],
                                  f"{name} [{cfg}]: {full} field #{num} {key}: default {f0[key]!r} vs {f1[key]!r}", w)
    for full, e0 in s0["enums"].items():
        e1 = s1["enums"].get(full)
        res.counters["comparisons"] += 1
        if e1 is not None and e0 != e1:
            res.violation("structure", [cfg_sig, "enum", "members-differ"], f"{name} [{cfg}]: {full}: {e0} vs {e1}", w)
    for full, v0 in s0["services"].items():
        v1 = s1["services"].get(full)
        res.counters["comparisons"] += 1
        if v1 is not None and v0 != v1:
            res.violation("structure", [cfg_sig, "service", "routes-or-methods-differ"], f"{name} [{cfg}]: {full}: {v0} vs {v1}", w)


def _compare_behaviour(builds, shard, name, res: Result, w0):
    base_cfg = CONFIGS[0]
    b0 = builds[base_cfg]
    rng = random.Random(f"c18-{shard['seed']}")
    g = Gen(b0, rng, max_depth=2)
    bp0 = BP(b0)
    msgs = b0.user_messages()
    if not msgs:
        return
    if len(msgs) > 12:
        # a very wide package (dozens of look-alike messages): the structure of ALL messages is compared above; values are
        # compared for a sample of them
        msgs = rng.sample(msgs, 8)
    trees = []
    for mi in msgs:
        cells = list(g.matrix(mi))
        rng.shuffle(cells)
        trees += [(mi, t) for _, _, t in cells[: max(3, shard["n"] // 2)]]
        trees.append((mi, g.tree(mi, 0, "maximal")))
        # every oneof member selected with its default value (what is emitted then depends on bookkeeping that the
        # dataclass flavours fill differently)
        from ..values import default_leaf
        for grp, members in mi.oneofs.items():
            for n in members:
                trees.append((mi, {n: default_leaf(mi.field(n))}))
        for fi_ in mi.fields:
            if fi_.label == "optional":
                trees.append((mi, {fi_.number: default_leaf(fi_)}))
        trees += [(mi, g.tree(mi, 0, "random")) for _ in range(max(2, shard["n"] // len(msgs)))]
    for mi, tree in trees:
        try:
            m0 = BP(b0).make(mi, tree)
            want_bytes = bytes(m0)
        except Exception:
            res.note("default-variant-cannot-build-value")
            continue
        try:
            want_json = m0.to_json()
        except Exception:
            want_json = None
        # decode direction of the default configuration (what the same bytes / JSON text turn into)
        try:
            d0 = type(m0)().parse(want_bytes)
            want_dec = (bytes(d0), _safe_json(d0))
        except Exception:
            want_dec = None
        try:
            j0 = type(m0)().from_json(want_json) if want_json is not None else None
            want_jdec = bytes(j0) if j0 is not None else None
        except Exception:
            want_jdec = None
        for cfg, b in builds.items():
            if cfg == base_cfg:
                continue
            cfg_sig = cfg.replace("typing.", "")
            w = dict(w0, config=cfg, msg=mi.full_name, tree=tree_to_json(tree))
            res.counters["comparisons"] += 1
            res.counters["behaviour_compared"] += 1
            try:
                m1 = BP(b).make(b.msgs[mi.full_name], tree)
            except Exception as e:
                from .c01 import carrier_sig, isolate_deep

                def pred(t, b=b):
                    try:
                        BP(b).make(b.msgs[mi.full_name], t)
                        return True
                    except Exception:
                        return False

                bad = isolate_deep(b0, mi, tree, pred)
                for fi, v in bad or [(None, None)]:
                    cs = carrier_sig(b0, fi, v) if fi is not None else ["combination", "?"]
                    res.violation("behaviour", [cfg_sig, "construct-raised:" + type(e).__name__ + _mech(str(e), shadow_shape(_closure(b0, mi), cfg))] + cs,
                                  f"{name} [{cfg}]: {mi.full_name} accepts a value under the default options but not here: {str(e)[:300]}", w)
                continue
            try:
                got = bytes(m1)
            except Exception as e:
                res.violation("behaviour", [cfg_sig, "bytes-raised:" + type(e).__name__, "-", "-"], f"{name} [{cfg}]: {mi.full_name}: {e!r}", w)
                continue
            if got != want_bytes:
                res.violation("behaviour", [cfg_sig, "bytes-differ", "-", "-"], f"{name} [{cfg}]: {mi.full_name}: {want_bytes.hex()[:120]} vs {got.hex()[:120]}", w)
            if want_dec is not None:
                res.counters["decode_compared"] += 1
                try:
                    d1 = type(m1)().parse(want_bytes)
                    got_dec = (bytes(d1), _safe_json(d1))
                    if got_dec != want_dec:
                        what = "bytes" if got_dec[0] != want_dec[0] else "json"
                        res.violation("behaviour", [cfg_sig, "decode-differs:" + what, "-", "-"],
                                      f"{name} [{cfg}]: {mi.full_name}: parse({want_bytes.hex()[:80]}) re-encodes / prints differently: "
                                      f"{str(want_dec)[:160]} vs {str(got_dec)[:160]}", w)
                except Exception as e:
                    res.violation("behaviour", [cfg_sig, "parse-raised:" + type(e).__name__, "-", "-"],
                                  f"{name} [{cfg}]: {mi.full_name}: parse of the default configuration's bytes: {e!r}", w)
            if want_jdec is not None:
                try:
                    j1 = type(m1)().from_json(want_json)
                    if bytes(j1) != want_jdec:
                        res.violation("behaviour", [cfg_sig, "from_json-differs", "-", "-"],
                                      f"{name} [{cfg}]: {mi.full_name}: from_json({want_json[:100]}) encodes to {bytes(j1).hex()[:80]} vs {want_jdec.hex()[:80]}", w)
                except Exception as e:
                    res.violation("behaviour", [cfg_sig, "from_json-raised:" + type(e).__name__, "-", "-"],
                                  f"{name} [{cfg}]: {mi.full_name}: from_json of the default configuration's JSON: {e!r}", w)
            if want_json is not None:
                try:
                    gj = m1.to_json()
                    if gj != want_json:
                        res.violation("behaviour", [cfg_sig, "json-differs", "-", "-"], f"{name} [{cfg}]: {mi.full_name}: {want_json[:150]} vs {gj[:150]}", w)
                except Exception as e:
                    res.violation("behaviour", [cfg_sig, "to_json-raised:" + type(e).__name__, "-", "-"], f"{name} [{cfg}]: {mi.full_name}: {e!r}", w)


def _history_trace(b, mi_name, ta, tb):
    """one fixed script of public operations on a message built from tree `ta` and on its copies, with the fields of
    tree `tb` assigned / grown in place / decoded onto them; returns the list of observations (bytes and JSON of EVERY
    object involved after every step), the same for every configuration if the generated classes behave the same"""
    import copy
    import pickle

    from ..values import attr_names

    mi = b.msgs[mi_name]
    bp = BP(b)
    trace = []

    def snap(tag, *objs):
        row = [tag]
        for o in objs:
            try:
                row.append(bytes(o).hex())
            except Exception as e:
                row.append("bytes-raised:" + type(e).__name__)
            row.append(_safe_json(o))
        trace.append(row)

    def step(tag, fn, *objs):
        try:
            fn()
        except Exception as e:
            trace.append([tag, "raised:" + type(e).__name__])
            return False
        snap(tag, *objs)
        return True

    m = bp.make(mi, ta)
    other = bp.make(mi, tb)
    other_bytes = bytes(other)
    box = {}
    if not step("copy", lambda: box.update(c=copy.copy(m), d=copy.deepcopy(m)), m):
        return trace
    c, d = box["c"], box["d"]
    snap("copies", m, c, d)
    try:
        box["p"] = pickle.loads(pickle.dumps(m))
        snap("pickle", box["p"])
    except Exception as e:
        trace.append(["pickle", "raised:" + type(e).__name__])
    kw = bp.kwargs(mi, tb, "attr")
    for k, v in kw.items():
        if not step("assign-on-shallow-copy:" + k, lambda k=k, v=v: setattr(c, k, v), m, c, d):
            break
    for k, v in reversed(list(bp.kwargs(mi, tb, "attr").items())):
        if not step("assign-on-deep-copy:" + k, lambda k=k, v=v: setattr(d, k, v), m, c, d):
            break
    e = copy.deepcopy(m)
    step("grow-deep-copy-in-place", lambda: bp.fill_inplace(e, mi, tb), m, e)
    # (decoding appends to the lists it finds: onto a SHALLOW copy that is visible through the original exactly when the two
    # share their list objects, which the standard flavour does and pydantic's validating constructor does not -- the field
    # values are then no longer identical, so C18 says nothing; only deep copies are decoded onto)
    f = copy.deepcopy(m)
    step("decode-onto-deep-copy", lambda: f.parse(other_bytes), m, f)
    g = copy.deepcopy(other)
    step("assign-original-fields-on-copy-of-other", lambda: [setattr(g, k, v) for k, v in bp.kwargs(mi, ta, "attr").items()], other, g)
    for grp in mi.oneofs:
        try:
            import betterproto

            trace.append(["which_one_of:" + grp] + [betterproto.which_one_of(o, grp)[0] for o in (m, c, d, e, f, other, g)])
        except Exception as ex:
            trace.append(["which_one_of:" + grp, "raised:" + type(ex).__name__])
    return trace


def _compare_histories(builds, shard, name, res: Result, w0):
    """C18 says 'for identical field values ... identical bytes and identical JSON': that must also hold for the objects
    a program ends up with after copying and mutating, not only for freshly constructed ones"""
    base_cfg = CONFIGS[0]
    b0 = builds[base_cfg]
    rng = random.Random(f"c18h-{shard['seed']}")
    g = Gen(b0, rng, max_depth=2)
    msgs = [mi for mi in b0.user_messages() if mi.fields]
    rng.shuffle(msgs)
    pairs = []
    for mi in msgs[: 12]:
        for _ in range(2 if mi.oneofs else 1):
            pairs.append((mi, g.tree(mi, 0, "random"), g.tree(mi, 0, "random")))
        pairs.append((mi, g.tree(mi, 0, "maximal"), g.tree(mi, 0, "random")))
        if mi.oneofs:
            from ..values import default_leaf

            for grp, members in mi.oneofs.items():
                if len(members) >= 2:
                    a, bb = rng.sample(members, 2)
                    pairs.append((mi, {a: default_leaf(mi.field(a))}, {bb: default_leaf(mi.field(bb))}))
                    pairs.append((mi, {a: g.leaf(mi.field(a), 1)}, {bb: g.leaf(mi.field(bb), 1)}))
    for mi, ta, tb in pairs:
        try:
            want = _history_trace(b0, mi.full_name, ta, tb)
        except Exception:
            res.note("default-variant-cannot-run-history")
            continue
        for cfg, b in builds.items():
            if cfg == base_cfg:
                continue
            cfg_sig = cfg.replace("typing.", "")
            w = dict(w0, config=cfg, msg=mi.full_name, history=True, tree=tree_to_json(ta), tree2=tree_to_json(tb))
            res.counters["comparisons"] += 1
            res.counters["histories_compared"] += 1
            try:
                got = _history_trace(b, mi.full_name, ta, tb)
            except Exception as e:
                mech = _mech(str(e), shadow_shape(_closure(b0, mi), cfg))
                if mech:
                    # the value cannot even be constructed under this configuration for a recorded reason (builtin-named field
                    # shadowing): the same signature as in the plain behaviour comparison
                    res.violation("behaviour", [cfg_sig, "construct-raised:" + type(e).__name__ + mech, "history", "-"],
                                  f"{name} [{cfg}]: {mi.full_name}: {str(e)[:300]}", w)
                else:
                    res.violation("history", [cfg_sig, "history-raised:" + type(e).__name__, "-", "-"], f"{name} [{cfg}]: {mi.full_name}: {e!r}", w)
                continue
            if got != want:
                k = next((i for i, (x, y) in enumerate(zip(want, got)) if x != y), min(len(want), len(got)))
                tag = (want[k][0] if k < len(want) else got[k][0]).split(":")[0]
                res.violation("history", [cfg_sig, "history-differs", tag, "-"],
                              f"{name} [{cfg}]: {mi.full_name}: after the same operations the objects differ at step {k}: "
                              f"default {str(want[k] if k < len(want) else None)[:300]} vs {str(got[k] if k < len(got) else None)[:300]}", w)


def _compare_alias_members(builds, name, res: Result, w0):
    """enum fields set to a member looked up by an ALIAS name: every configuration must print / encode the same"""
    base_cfg = CONFIGS[0]
    b0 = builds[base_cfg]
    for mi in b0.user_messages():
        for fi in mi.fields:
            if fi.kind != "enum" or fi.label not in ("singular", "optional", "oneof") or fi.type_name.startswith(".google.protobuf."):
                continue
            ei = b0.enums.get(fi.type_name)
            if ei is None or len(set(ei.numbers)) == len(ei.numbers):
                continue
            outs = {}
            for cfg, b in builds.items():
                try:
                    E = b.bp_enum(fi.type_name)
                    cls = b.bp_class(mi.full_name)
                    attr = attr_names(cls)[fi.number]
                    rows = []
                    for nm in sorted(E.__members__):
                        m = cls(**{attr: E[nm]})
                        rows.append((nm, bytes(m).hex(), m.to_json()))
                    outs[cfg] = rows
                except Exception as e:
                    outs[cfg] = "raised:" + type(e).__name__ + ":" + str(e)[:100]
            res.counters["alias_member_comparisons"] += len(outs)
            for cfg, rows in outs.items():
                if rows != outs[base_cfg]:
                    diff = next((a, b_) for a, b_ in zip(rows, outs[base_cfg]) if a != b_) if isinstance(rows, list) and isinstance(outs[base_cfg], list) else (rows, outs[base_cfg])
                    res.violation("behaviour", [cfg.replace("typing.", ""), "alias-member-differs", "-", "-"],
                                  f"{name} [{cfg}]: {mi.full_name}.{fi.name} set to members by (alias) name: {str(diff)[:300]}", dict(w0, config=cfg, msg=mi.full_name))


def _safe_json(m):
    try:
        return m.to_json()
    except Exception as e:
        return "raised:" + type(e).__name__


def replay(w):
    r = run_shard({"item": w["item"], "seed": 0, "n": 10})
    return r.violations


RULE += ' The same operation history (copy, deepcopy, pickle, assignment of every field of a second value on the shallow and on the deep copy, in-place growth, decode onto a deep copy) must leave identical bytes and JSON on every object involved under every configuration. Extra sets include rare constructs (custom options via extend, reserved, json_name, import public), packages split over files with and without typing constructs.'
