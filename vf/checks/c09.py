"""C09 len(m) equals the encoded size and dump() writes exactly bytes(m)."""
from __future__ import annotations

import io

from .. import spec
from ..core import Result
from ..values import attr_names
from ..valuework import plan_items, replay_value, run_value_shard
from .c01 import carrier_sig, isolate

PROP = "C09"
LEVEL = "exploration"
RULE = ("the C01 population (matrix / random / maximal value trees over matrix schema, G-schema sets, tests/inputs), "
        "each additionally (a) re-parsed from its own bytes, (b) re-parsed from bytes with unknown records appended and "
        "interleaved (so the message carries unknown fields), (c) with empty-but-present optional / oneof / nested "
        "members; for each message: len(m) vs len(bytes(m)), dump(stream) vs bytes(m), dump(stream, SIZE_DELIMITED) vs "
        "spec-varint(len) + bytes(m), SerializeToString vs bytes. (d) measured, then grown through its containers / descendants only (no attribute of the message itself assigned), then measured again; The len contract on Message.__bytes__ also observes "
        "every nested serialisation. A directed shard measures payload lengths at every length-prefix boundary (125..129, 16381..16385 bytes) in string / bytes / packed / nested / map positions and the bundled well-known message classes as top-level messages; a measurement that fails on another object precedes some measurements. distinct = distinct (schema, type, tree, variant).")
ASSUMPTIONS = [
    "the varint length prefix is computed by the independent spec-level codec",
    "ruff is replaced by an identity stand-in when the plugin formats its output",
]
FLOORS = {"quick": {"evaluations": 2000, "len_checked": 6000}, "thorough": {"evaluations": 100000, "len_checked": 300000}}
ANCHORS = ['Message.__len__', '_len_single', '_len_preprocessed_single', 'size_varint', 'Message.dump']
CONTRACTS = ["bytes"]


def plan(tier, seed):
    return plan_items(tier, seed, n_gen_quick=10, n_gen_thorough=300, n_quick=120, n_thorough=800) + [{"kind": "w0"}, {"kind": "directed"}]


def run_directed() -> Result:
    """(a) payload lengths at every length-prefix boundary (127/128, 16383/16384) in string, bytes, packed, nested and map
    positions of the matrix schema; (b) the bundled well-known message classes measured as TOP-LEVEL messages"""
    from .. import corpus

    res = Result()
    b = corpus.build_item({"kind": "matrix"})
    try:
        names = {mi.full_name: attr_names(b.bp_class(mi.full_name)) for mi in b.user_messages()}
        sc, rp, ne, mp = (b.msgs[".vf.matrix." + n] for n in ("Scalars", "Repeateds", "Nested", "Maps"))

        def attr(mi, proto_name):
            return names[mi.full_name][next(f.number for f in mi.fields if f.name == proto_name)]

        for n in (125, 126, 127, 128, 129, 16381, 16382, 16383, 16384, 16385):
            cases = [
                ("string", b.bp_class(sc.full_name)(**{attr(sc, "f_string"): "s" * n})),
                ("bytes", b.bp_class(sc.full_name)(**{attr(sc, "f_bytes"): b"b" * n})),
                ("packed", b.bp_class(rp.full_name)(**{attr(rp, "r_bool"): [True] * n})),
                ("nested", b.bp_class(ne.full_name)(**{attr(ne, "sub"): b.bp_class(".vf.matrix.Sub")(s="n" * max(0, n - 3))})),
                ("map-value", b.bp_class(mp.full_name)(**{attr(mp, "v_string"): {"k": "v" * max(0, n - 5)}})),
                ("repeated-string", b.bp_class(rp.full_name)(**{attr(rp, "r_string"): ["r" * n, ""]})),
            ]
            for label, m in cases:
                res.note("len_checked")
                res.note("length_boundary_cases")
                res.case(f"boundary:{label}:{n}")
                for kind, detail in _observe(m):
                    res.violation(kind.split("-raised")[0], [label, f"payload-length-{'127' if n < 1000 else '16383'}-boundary", kind],
                                  f"{label} with payload length around {n}: {detail}", {"kind": "directed"})
        import betterproto.lib.google.protobuf as g

        tops = [g.Struct(fields={"a": g.Value(number_value=1.5), "b": g.Value(string_value="x"), "c": g.Value(bool_value=True)}),
                g.Struct(), g.Value(string_value="v"), g.ListValue(values=[g.Value(number_value=1), g.Value(number_value=2)]),
                g.Any(type_url="t", value=b"abc"), g.FieldMask(paths=["a", "b.c"]), g.Empty(), g.Int64Value(value=-1), g.StringValue(value="s"),
                g.BytesValue(value=b"\x00" * 5), g.Timestamp(seconds=-1, nanos=5), g.Duration(seconds=3, nanos=-7), g.BoolValue(value=True),
                g.DoubleValue(value=-0.0), g.SourceContext(file_name="f")]
        for m in tops:
            res.note("len_checked")
            res.note("wellknown_toplevel_cases")
            res.case(f"wkt:{type(m).__name__}:{bytes(m).hex()[:20]}")
            for kind, detail in _observe(m):
                res.violation(kind.split("-raised")[0], ["well-known:" + type(m).__name__, "top-level", kind],
                              f"betterproto.lib.google.protobuf.{type(m).__name__} as a top-level message: {detail}", {"kind": "directed"})
    finally:
        b.cleanup()
    return res


def _observe(m):
    """returns list of failure labels for one message"""
    fails = []
    data = bytes(m)
    try:
        n = len(m)
        if n != len(data):
            fails.append(("len", f"len(m)={n} len(bytes(m))={len(data)} bytes={data.hex()[:120]}"))
    except Exception as e:
        fails.append(("len-raised:" + type(e).__name__, repr(e)))
    try:
        s = io.BytesIO()
        m.dump(s)
        if s.getvalue() != data:
            fails.append(("dump", f"dump wrote {s.getvalue().hex()[:120]} bytes(m)={data.hex()[:120]}"))
    except Exception as e:
        fails.append(("dump-raised:" + type(e).__name__, repr(e)))
    try:
        import betterproto

        s = io.BytesIO()
        m.dump(s, betterproto.SIZE_DELIMITED)
        exp = spec.enc_varint(len(data)) + data
        if s.getvalue() != exp:
            fails.append(("dump-delimited", f"wrote {s.getvalue().hex()[:120]} expected {exp.hex()[:120]}"))
    except Exception as e:
        fails.append(("dump-delimited-raised:" + type(e).__name__, repr(e)))
    try:
        if m.SerializeToString() != data:
            fails.append(("SerializeToString", "differs from bytes(m)"))
    except Exception as e:
        fails.append(("SerializeToString-raised:" + type(e).__name__, repr(e)))
    return fails


def _variants(b, bp, mi, tree, rng, cls):
    """(variant name, message builder)"""
    yield "ctor", lambda t: bp.make(mi, t, "ctor")
    yield "attr", lambda t: bp.make(mi, t, "attr")
    yield "inplace", lambda t: bp.make(mi, t, "inplace")
    yield "parsed", lambda t: cls().parse(bytes(bp.make(mi, t, "ctor")))

    def with_unknown(t):
        from ..wiregen import WireGen

        data = bytes(bp.make(mi, t, "ctor"))
        wg = WireGen(b, rng)
        known = {f.number for f in mi.fields}
        recs = [r.raw for r in spec.read_records(data)]
        for _ in range(rng.randint(1, 3)):
            recs.insert(rng.randint(0, len(recs)), wg.unknown_record(known))
        return cls().parse(b"".join(recs))

    yield "unknown", with_unknown

    def with_nested_unknown(t):
        """unknown records INSIDE plain sub-messages (also sub-messages whose only content is unknown)"""
        from ..wiregen import WireGen

        data = bytes(bp.make(mi, t, "ctor"))
        wg = WireGen(b, rng)
        fields = {f.number: f for f in mi.fields}
        recs = spec.read_records(data)
        raws = [r.raw for r in recs]
        done = False
        for i, r in enumerate(recs):
            fi = fields.get(r.number)
            if fi is not None and r.wt == 2 and fi.kind == "message" and fi.wkt is None and fi.label != "map":
                sub_known = {f.number for f in b.msgs[fi.type_name].fields}
                raws[i] = spec.enc_record(r.number, 2, r.value + wg.unknown_record(sub_known))
                done = True
        for fi in mi.fields:
            if not done and fi.kind == "message" and fi.wkt is None and fi.label in ("singular", "optional", "repeated"):
                # a sub-message holding nothing but an unknown field
                sub_known = {f.number for f in b.msgs[fi.type_name].fields}
                raws.append(spec.enc_record(fi.number, 2, wg.unknown_record(sub_known)))
                done = True
                break
        if not done:
            raise ValueError("no plain sub-message field")
        return cls().parse(b"".join(raws))

    yield "nested-unknown", with_nested_unknown

    def measured_then_grown(t):
        """a history on ONE object: measure it, let it grow through its containers / descendants only (no attribute of
        the message itself is assigned), measure again"""
        import betterproto

        m = bp.make(mi, t, "ctor")
        len(m), bytes(m), len(m)

        def grow(x, xmi, depth=0):
            names = attr_names(type(x))
            grew = False
            for fi in xmi.fields:
                if fi.number not in names:
                    continue
                try:
                    v = getattr(x, names[fi.number])
                except AttributeError:
                    continue
                if fi.label == "repeated" and v:
                    v.append(v[0])
                    grew = True
                elif fi.label == "map" and v and fi.map_key.kind == "string":
                    k0 = next(iter(v))
                    v[k0 + "+grown"] = v[k0]
                    grew = True
                elif fi.label == "singular" and fi.kind == "message" and fi.wkt is None and depth < 2 and betterproto.serialized_on_wire(v):
                    grew = grow(v, b.msgs[fi.type_name], depth + 1) or grew
            return grew

        if not grow(m, mi):
            raise ValueError("nothing to grow")
        return m

    yield "measured-then-grown", measured_then_grown


def check_negzero(b, mi, res: Result, w):
    """-0.0 equals the default 0.0 but has other bytes: whatever dump decides for it, len must agree"""
    from ..values import attr_names

    cls = b.bp_class(mi.full_name)
    names = attr_names(cls)
    for fi in mi.fields:
        inner = fi.map_value if fi.label == "map" else fi
        if inner.wkt is not None and not inner.wkt.startswith("wrapper:"):
            continue
        k = inner.wkt.split(":")[1] if inner.wkt else inner.kind
        if k not in ("float", "double"):
            continue
        v = [-0.0, 1.5, -0.0] if fi.label == "repeated" else ({("k" if fi.map_key.kind == "string" else (True if fi.map_key.kind == "bool" else 1)): -0.0} if fi.label == "map" else -0.0)
        for how in ("ctor", "attr"):
            try:
                if how == "ctor":
                    m = cls(**{names[fi.number]: v})
                else:
                    m = cls()
                    setattr(m, names[fi.number], v)
            except Exception:
                continue
            res.note("len_checked")
            res.note("negzero_checked")
            for kind, detail in _observe(m):
                res.violation(kind.split("-raised")[0], [fi.cls_key(), "negative-zero", kind], f"{mi.full_name}.{fi.name} = -0.0 [{how}]: {detail}",
                              dict(w, negzero=fi.number))


def _poison(b, cls, mi, res: Result):
    """len() / bytes() of a message holding an out-of-range value in a packed / fixed-width field raise half-way"""
    names = attr_names(cls)
    for fi in mi.fields:
        if fi.label == "repeated" and fi.kind in ("fixed32", "fixed64", "sfixed32", "uint32", "int32", "sint64") and fi.number in names:
            bad = cls(**{names[fi.number]: [1, 2, -(2**70), 3]})
            for fn in (len, bytes):
                try:
                    fn(bad)
                except Exception:
                    res.note("poisoned_measurements")
            return


def check_case(b, bp, ref, mi, tree, res: Result, w, rng):
    if w.get("tag") == "empty" or w.get("negzero"):
        check_negzero(b, mi, res, w)
    cls = b.bp_class(mi.full_name)
    for vname, mk in _variants(b, bp, mi, tree, rng, cls):
        st = rng.getstate()
        try:
            m = mk(tree)
        except Exception:
            res.note("variant-unbuildable:" + vname)  # C01/C08 territory
            continue
        res.note("len_checked")
        if vname == "ctor":
            _poison(b, cls, mi, res)  # a measurement that FAILS on another object must not leak into this one
        fails = _observe(m)
        if not fails:
            continue
        for kind, detail in fails:
            def pred(t, kind=kind):
                rng.setstate(st)
                return not any(k == kind for k, _ in _observe(mk(t)))
            bad = isolate(b, mi, tree, pred) if vname not in ("unknown", "nested-unknown") else []
            if vname in ("unknown", "nested-unknown"):
                sigs = [[vname + "-fields", "any"]]
            else:
                sigs = [carrier_sig(b, fi, v) for fi, v in bad] or [["combination", "?"]]
            for cs in sigs:
                res.violation(kind.split("-raised")[0], cs + [kind],
                              f"{mi.full_name} [{vname}]: {detail}", dict(w, variant=vname))


def run_shard(shard):
    if shard.get("kind") == "directed":
        return run_directed()
    if shard.get("kind") == "w0":
        from ..w0 import run_w0

        return run_w0(PROP, CONTRACTS)
    return run_value_shard(shard, PROP, check_case, CONTRACTS)


def replay(w):
    if w.get("kind") == "directed":
        return run_directed().violations
    if w.get("kind") == "w0":
        from ..w0 import run_w0

        return run_w0(PROP, CONTRACTS).violations
    return replay_value(w, check_case, PROP, CONTRACTS)


RULE += " Also 'large' shards (one field per case with 127..70000 bytes / 31..2100 elements / 31..257 entries, on generated and hand-built classes) and an 'after failures' shard."
