"""C15 Timestamp/Duration <-> datetime/timedelta conversion is exact and normalised."""
from __future__ import annotations

import random
import re
from datetime import datetime, timedelta, timezone

from .. import corpus, monitors
from ..build import BuildError
from ..core import Result
from ..values import DU_BOUNDS, DU_MAX_S, TS_BOUNDS, TS_MAX_S, TS_MIN_S, attr_names

PROP = "C15"
LEVEL = "exploration"
RULE = ("class-stratified seeded datetimes over [0001-01-01, 9999-12-31T23:59:59.999999] with fixed UTC offsets -14h..+14h "
        "(instant kept in range) and timedeltas over +-315,576,000,000 s at 1 us resolution (strata: negative with "
        "fraction, |x| > 2**53 us, epoch, second boundaries, extremes, random), stored in singular / optional / repeated / "
        "oneof / map-value Timestamp and Duration fields of the matrix schema. Monitors: the (seconds, nanos) read from "
        "the bytes by google.protobuf == reference FromDatetime/FromTimedelta == an independent integer computation; "
        "normalisation ranges; parse returns the identical value / same instant; to_dict string is accepted by the "
        "reference and (Timestamp) equals ToJsonString(); from_dict of that string returns the value. The same instant written with a numeric UTC offset and the same span written with the shortest fraction must be read like the reference's parser reads them. The conversion "
        "contracts on _Timestamp/_Duration run as well. distinct = distinct (kind, position, value).")
ASSUMPTIONS = [
    "Duration JSON: betterproto prints whole seconds as 'N.000s' (asserted by the repository's own tests); judged by the reference parser "
    "and the 0/3/6/9-digit format, not by string equality with ToJsonString()",
    "reference = protobuf 7.x well-known-type mixins on classes from a private pool",
]
FLOORS = {"quick": {"values": 40000}, "thorough": {"values": 2000000}}
ANCHORS = ['_Timestamp.from_datetime', '_Timestamp.to_datetime', '_Duration.from_timedelta', '_Duration.to_timedelta', '_Timestamp.timestamp_to_json', '_Duration.delta_to_json']
CONTRACTS = ["time", "bytes"]
EPOCH = datetime(1970, 1, 1, tzinfo=timezone.utc)
DUR_RE = re.compile(r"^-?\d+(\.\d{3}|\.\d{6}|\.\d{9})?s$")


def plan(tier, seed):
    n = 4000 if tier == "quick" else 40000
    return [{"seed": seed * 313 + i, "n": n} for i in range(16)] + [{"kind": "w0"}]


def gen_ts(rng):
    r = rng.random()
    if r < 0.15:
        s, n = rng.choice(TS_BOUNDS)
    elif r < 0.35:
        s = rng.randint(-5, 5)
        n = rng.choice([0, 1000, 999999000, rng.randint(0, 999999) * 1000])
    elif r < 0.55:
        s = rng.choice([TS_MIN_S, TS_MAX_S, TS_MIN_S + rng.randint(0, 100000), TS_MAX_S - rng.randint(0, 100000)])
        n = rng.choice([0, 999999000, rng.randint(0, 999999) * 1000])
    else:
        s = rng.randint(TS_MIN_S, TS_MAX_S)
        n = rng.randint(0, 999999) * 1000
    return s, n


def gen_du(rng):
    r = rng.random()
    if r < 0.15:
        return rng.choice(DU_BOUNDS)
    if r < 0.35:
        s = rng.randint(0, 3)
        n = rng.choice([1000, 999999000, 500000000, rng.randint(1, 999999) * 1000])
    elif r < 0.55:
        s = rng.randint(2**53 // 10**6, DU_MAX_S)
        n = rng.randint(0, 999999) * 1000
    elif r < 0.65:
        s, n = rng.choice([DU_MAX_S, DU_MAX_S - 1]), rng.choice([0, 999999000])
    else:
        s = rng.randint(0, DU_MAX_S)
        n = rng.choice([0, rng.randint(0, 999999) * 1000])
    if rng.random() < 0.55:
        s, n = -s, -n
    return s, n


def ts_class(s, n, off):
    c = "epoch" if (s, n) == (0, 0) else ("pre-1970" if s < 0 else "post-1970")
    if n:
        c += "-frac"
    if s in (TS_MIN_S, TS_MAX_S):
        c += "-extreme"
    if off:
        c += "-offset"
    return c


def du_class(s, n):
    if (s, n) == (0, 0):
        return "zero"
    c = "neg" if (s < 0 or n < 0) else "pos"
    if n:
        c += "-frac"
    if abs(s) * 10**6 > 2**53:
        c += "-big"
    return c


def run_shard(shard) -> Result:
    if shard.get("kind") == "w0":
        from ..w0 import run_w0

        return run_w0(PROP, CONTRACTS)
    res = Result()
    rng = random.Random(f"c15-{shard['seed']}")
    try:
        b = corpus.build_item({"kind": "matrix"})
    except BuildError as e:
        res.inconclusive.append(f"SUT could not be built: {e.stage}: {e.detail[-400:]}")
        return res
    try:
        monitors.install(CONTRACTS)
        for _ in range(shard["n"]):
            if rng.random() < 0.5:
                s, n = gen_ts(rng)
                off = rng.choice([0, 0, 0, 60, -60, 330, -720, 840, -840, rng.randint(-840, 840)])
                check_ts(b, res, s, n, off, rng.choice(POS))
            else:
                s, n = gen_du(rng)
                check_du(b, res, s, n, rng.choice(POS))
        monitors.set_context(None)
        monitors.drain(res, PROP)
    finally:
        b.cleanup()
    return res


POS = ("singular", "optional", "repeated", "oneof", "mapvalue")
FIELDS = {  # position -> (message, ts field number, du field number)
    "singular": (".vf.matrix.Wkt", 1, 2), "optional": (".vf.matrix.Optionals", 19, 20),
    "repeated": (".vf.matrix.Repeateds", 19, 20), "oneof": (".vf.matrix.Oneofs", 19, 20),
    "mapvalue": (".vf.matrix.Maps", 33, 34),
}


def _carrier(b, pos, is_ts):
    full, tn, dn = FIELDS[pos]
    mi = b.msgs[full]
    fi = mi.field(tn if is_ts else dn)
    cls = b.bp_class(full)
    return mi, fi, cls, attr_names(cls)[fi.number], b.ref_class(full)


def _wrap(pos, v):
    return [v] if pos == "repeated" else ({"k": v} if pos == "mapvalue" else v)


def _unwrap(pos, v):
    return v[0] if pos == "repeated" else (v["k"] if pos == "mapvalue" else v)


def _ref_sub(pos, r, fi):
    v = getattr(r, fi.name)
    return v[0] if pos == "repeated" else (v["k"] if pos == "mapvalue" else v)


def check_ts(b, res: Result, s, n, off_min, pos):
    mi, fi, cls, nm, rcls = _carrier(b, pos, True)
    tz = timezone(timedelta(minutes=off_min)) if off_min else timezone.utc
    instant = EPOCH + timedelta(seconds=s, microseconds=n // 1000)
    try:
        dt = instant.astimezone(tz)
    except OverflowError:
        res.discards["instant-out-of-range-in-local-time"] += 1
        return
    w = {"kind": "ts", "s": s, "n": n, "off": off_min, "pos": pos}
    monitors.set_context(w)
    kc = ts_class(s, n, off_min)
    res.counters["values"] += 1
    res.distinct.add(f"ts|{pos}|{s}|{n}|{off_min}")
    res.evaluations += 1
    sig0 = ["timestamp", pos, kc]
    try:
        m = cls(**{nm: _wrap(pos, dt)})
        data = bytes(m)
    except Exception as e:
        res.violation("encode-raises", sig0 + ["raised:" + type(e).__name__], f"Timestamp {dt.isoformat()} in {pos} position: {e!r}", w)
        return
    try:
        rsub = _ref_sub(pos, rcls.FromString(data), fi)
        got = (rsub.seconds, rsub.nanos)
    except Exception as e:
        res.violation("encode", sig0 + ["reference-cannot-read"], f"{dt.isoformat()}: {e!r} bytes={data.hex()}", w)
        return
    from google.protobuf import timestamp_pb2

    rt = timestamp_pb2.Timestamp()
    rt.FromDatetime(dt)
    if got != (s, n) or got != (rt.seconds, rt.nanos):
        res.violation("encode", sig0 + ["wrong-seconds-nanos"],
                      f"{dt.isoformat()} encoded as {got}, independent computation {(s, n)}, reference FromDatetime {(rt.seconds, rt.nanos)}", w)
    if not (0 <= got[1] < 10**9):
        res.violation("normalisation", sig0 + ["nanos-out-of-range"], f"{dt.isoformat()} -> nanos {got[1]}", w)
    try:
        back = _unwrap(pos, getattr(cls().parse(data), nm))
        if not isinstance(back, datetime) or back.tzinfo is None or back != dt or (back - EPOCH) != (dt - EPOCH):
            res.violation("decode", sig0 + ["different-instant"], f"{dt.isoformat()} decoded as {back!r}", w)
    except Exception as e:
        res.violation("decode", sig0 + ["raised:" + type(e).__name__], f"{dt.isoformat()}: parse raised {e!r}", w)
    _other_entry_points(cls, m, data, nm, pos, dt, sig0, res, w, dt.isoformat())
    if pos == "repeated":
        # the same value entering the list AFTER the list became the field's value (appended in place, item assignment,
        # appended to a list that was assigned before): bytes and JSON must not depend on how the datetime got there
        try:
            ways = {}
            a = cls()
            getattr(a, nm).append(dt)
            ways["append-to-lazy-default"] = a
            lst = []
            c = cls(**{nm: lst})
            lst.append(dt) if getattr(c, nm) is lst else getattr(c, nm).append(dt)
            ways["append-after-constructor"] = c
            d2 = cls(**{nm: [datetime(2001, 2, 3, tzinfo=timezone.utc)]})
            getattr(d2, nm)[0] = dt
            ways["item-assignment"] = d2
            e = cls().parse(data)
            getattr(e, nm)[0] = dt
            ways["item-assignment-after-parse"] = e
            want_json = m.to_dict()
            for how, obj in ways.items():
                res.counters["repeated_inplace_ways"] += 1
                if bytes(obj) != data or obj.to_dict() != want_json:
                    res.violation("inplace", sig0 + [how, "bytes-differ" if bytes(obj) != data else "json-differs"],
                                  f"{dt.isoformat()} put into the repeated field by {how}: bytes {bytes(obj).hex()} JSON {obj.to_dict()} vs constructor {data.hex()} {want_json}", w)
        except Exception as e:
            res.violation("inplace", sig0 + ["raised:" + type(e).__name__, "-"], f"{dt.isoformat()}: {e!r}", w)
    if pos in ("singular", "optional", "oneof", "repeated"):
        try:
            d = m.to_dict()
            js = _unwrap(pos, next(iter(d.values()))) if d else None
        except Exception as e:
            res.violation("json", sig0 + ["to_dict-raised:" + type(e).__name__], f"{dt.isoformat()}: {e!r}", w)
            return
        if js is None:
            if (s, n) != (0, 0) or pos != "singular":
                res.violation("json", sig0 + ["missing-from-dict"], f"{dt.isoformat()}: to_dict() = {d}", w)
            return
        want = rt.ToJsonString()
        if js != want:
            res.violation("json", sig0 + ["differs-from-ToJsonString"], f"{dt.isoformat()}: betterproto {js!r} reference {want!r}", w)
        try:
            m3 = cls().from_dict(d)
            back = _unwrap(pos, getattr(m3, nm))
            if back != dt:
                res.violation("json", sig0 + ["from_dict-different-instant"], f"{js!r} read back as {back!r}, expected {dt.isoformat()}", w)
        except Exception as e:
            res.violation("json", sig0 + ["from_dict-raised:" + type(e).__name__], f"{js!r}: {e!r}", w)
        # RFC 3339 allows a numeric UTC offset instead of "Z": the same instant written that way reads back as that instant
        if 2 <= dt.year <= 9998:
            from datetime import timezone as _tz, timedelta as _td

            for off in (_td(hours=5, minutes=30), _td(hours=-8), _td(minutes=1)):
                alt = dt.astimezone(_tz(off)).isoformat()
                try:
                    key = next(iter(d))
                    back = _unwrap(pos, getattr(cls().from_dict({key: _wrap(pos, alt)}), nm))
                    res.counters["json_offset_spellings"] += 1
                    if back != dt:
                        res.violation("json", sig0 + ["offset-spelling-read-as-other-instant"], f"{alt!r} read back as {back!r}, expected the instant {dt.isoformat()}", w)
                except Exception as e:
                    res.violation("json", sig0 + ["offset-spelling-raised:" + type(e).__name__], f"{alt!r}: {e!r}", w)
    if len(res.samples) < 2:
        res.sample({"datetime": dt.isoformat(), "position": pos, "seconds_nanos": list(got), "bytes": data.hex()})


def _other_entry_points(cls, m, data, nm, pos, value, sig0, res: Result, w, what):
    """the value must decode back identically through every binary entry point the library offers, not only bytes/parse:
    SerializeToString / FromString and dump / load with SIZE_DELIMITED (whose length prefix comes from len(m))"""
    import io

    import betterproto

    res.counters["entry_point_roundtrips"] += 1
    try:
        if m.SerializeToString() != data:
            res.violation("encode", sig0 + ["SerializeToString-differs-from-bytes"], f"{what}", w)
        back = _unwrap(pos, getattr(cls.FromString(data), nm))
        if back != value:
            res.violation("decode", sig0 + ["FromString-different-value"], f"{what} decoded as {back!r}", w)
        s = io.BytesIO()
        m.dump(s, betterproto.SIZE_DELIMITED)
        m.dump(s, betterproto.SIZE_DELIMITED)
        s.seek(0)
        for i in range(2):
            back = _unwrap(pos, getattr(cls().load(s, betterproto.SIZE_DELIMITED), nm))
            if back != value:
                res.violation("decode", sig0 + ["delimited-different-value"], f"{what}: frame {i} of a size-delimited stream decoded as {back!r}", w)
        if s.read() != b"":
            res.violation("decode", sig0 + ["delimited-bytes-left-over"], f"{what}: two size-delimited frames were not consumed exactly", w)
    except Exception as e:
        res.violation("decode", sig0 + ["entry-point-raised:" + type(e).__name__], f"{what}: SerializeToString / FromString / size-delimited dump+load: {e!r}", w)


def check_du(b, res: Result, s, n, pos):
    mi, fi, cls, nm, rcls = _carrier(b, pos, False)
    us = s * 10**6 + (n // 1000 if n >= 0 else -((-n) // 1000))
    td = timedelta(microseconds=us)
    w = {"kind": "du", "s": s, "n": n, "pos": pos}
    monitors.set_context(w)
    kc = du_class(s, n)
    res.counters["values"] += 1
    res.distinct.add(f"du|{pos}|{s}|{n}")
    res.evaluations += 1
    sig0 = ["duration", pos, kc]
    try:
        m = cls(**{nm: _wrap(pos, td)})
        data = bytes(m)
    except Exception as e:
        res.violation("encode-raises", sig0 + ["raised:" + type(e).__name__], f"Duration {td!r} in {pos} position: {e!r}", w)
        return
    try:
        rsub = _ref_sub(pos, rcls.FromString(data), fi)
        got = (rsub.seconds, rsub.nanos)
    except Exception as e:
        res.violation("encode", sig0 + ["reference-cannot-read"], f"{td!r}: {e!r} bytes={data.hex()}", w)
        return
    from google.protobuf import duration_pb2

    rd = duration_pb2.Duration()
    rd.FromTimedelta(td)
    if got != (s, n) or got != (rd.seconds, rd.nanos):
        res.violation("encode", sig0 + ["wrong-seconds-nanos"],
                      f"{td!r} encoded as {got}, independent computation {(s, n)}, reference FromTimedelta {(rd.seconds, rd.nanos)}", w)
    if (got[0] > 0 and got[1] < 0) or (got[0] < 0 and got[1] > 0) or abs(got[1]) >= 10**9:
        res.violation("normalisation", sig0 + ["sign-or-range"], f"{td!r} -> {got}", w)
    try:
        back = _unwrap(pos, getattr(cls().parse(data), nm))
        if not isinstance(back, timedelta) or back != td:
            res.violation("decode", sig0 + ["different-span"], f"{td!r} decoded as {back!r}", w)
    except Exception as e:
        res.violation("decode", sig0 + ["raised:" + type(e).__name__], f"{td!r}: parse raised {e!r}", w)
    _other_entry_points(cls, m, data, nm, pos, td, sig0, res, w, repr(td))
    if pos in ("singular", "optional", "oneof", "repeated"):
        try:
            d = m.to_dict()
            js = _unwrap(pos, next(iter(d.values()))) if d else None
        except Exception as e:
            res.violation("json", sig0 + ["to_dict-raised:" + type(e).__name__], f"{td!r}: {e!r}", w)
            return
        if js is None:
            if (s, n) != (0, 0) or pos != "singular":
                res.violation("json", sig0 + ["missing-from-dict"], f"{td!r}: to_dict() = {d}", w)
            return
        if not isinstance(js, str) or not DUR_RE.match(js):
            res.violation("json", sig0 + ["not-decimal-seconds-format"], f"{td!r}: {js!r}", w)
        else:
            rr = duration_pb2.Duration()
            try:
                rr.FromJsonString(js)
                if (rr.seconds, rr.nanos) != (s, n):
                    res.violation("json", sig0 + ["reference-reads-other-value"], f"{td!r}: {js!r} read by the reference as {(rr.seconds, rr.nanos)}", w)
            except Exception as e:
                res.violation("json", sig0 + ["reference-rejects"], f"{td!r}: {js!r}: {e!r}", w)
        try:
            back = _unwrap(pos, getattr(cls().from_dict(d), nm))
            if back != td:
                res.violation("json", sig0 + ["from_dict-different-span"], f"{js!r} read back as {back!r}, expected {td!r}", w)
            # the reference's own spelling must be accepted too
            key = next(iter(d))
            back2 = _unwrap(pos, getattr(cls().from_dict({key: _wrap(pos, rd.ToJsonString())}), nm))
            if back2 != td:
                res.violation("json", sig0 + ["reference-spelling-read-differently"], f"{rd.ToJsonString()!r} read back as {back2!r}, expected {td!r}", w)
            # the same span with the shortest fraction ("1.5s" for "1.500s"): read like the reference's parser reads it
            if isinstance(js, str) and "." in js:
                short = js[:-1].rstrip("0").rstrip(".") + "s"
                rr2 = duration_pb2.Duration()
                rr2.FromJsonString(short)
                back3 = _unwrap(pos, getattr(cls().from_dict({key: _wrap(pos, short)}), nm))
                res.counters["json_short_fraction_spellings"] += 1
                if back3 != td or (rr2.seconds, rr2.nanos) != (s, n):
                    res.violation("json", sig0 + ["short-fraction-spelling-read-differently"], f"{short!r} read back as {back3!r}, expected {td!r}", w)
        except Exception as e:
            res.violation("json", sig0 + ["from_dict-raised:" + type(e).__name__], f"{js!r}: {e!r}", w)
    if len(res.samples) < 3:
        res.sample({"timedelta_us": us, "position": pos, "seconds_nanos": list(got), "bytes": data.hex()})


def replay(w):
    if w.get("kind") == "w0":
        from ..w0 import run_w0

        return run_w0(PROP, CONTRACTS).violations
    res = Result()
    b = corpus.build_item({"kind": "matrix"})
    try:
        monitors.install(CONTRACTS)
        if w.get("kind") == "ts":
            for pos in ([w["pos"]] if w.get("pos") else POS):
                check_ts(b, res, w["s"], w["n"], w.get("off", 0), pos)
        elif w.get("kind") == "du":
            for pos in ([w["pos"]] if w.get("pos") else POS):
                check_du(b, res, w["s"], w["n"], pos)
        monitors.drain(res, PROP)
    finally:
        b.cleanup()
    return res.violations


RULE += ' Every value is also read back through SerializeToString / FromString and a size-delimited stream of two frames; datetimes entering a repeated field in place (append, item assignment) must encode and print like constructor-built ones.'
