"""C11 Generated gRPC stub and server base agree: calls reach the right handler intact."""
from __future__ import annotations

import asyncio
import itertools
import os
import random
import re
import traceback
from typing import Any, Dict, List

from .. import VERIF_DIR, corpus
from ..build import Build, BuildError
from ..core import Result
from ..values import BP, Gen

PROP = "C11"
LEVEL = "exploration"
RULE = ("generated services (the fixed service matrix: all four cardinalities x local / nested / cross-package / well-known "
        "request and response types, method names needing re-casing; plus seeded G-schema services) are served by a "
        "recording subclass of the generated <Service>Base over grpclib.testing.ChannelFor and called through the generated "
        "<Service>Stub. Every call gets a unique id; client call/return, handler enter / request item / response item / "
        "exit, the kwargs seen by the real Channel.request and the metadata seen by the server (RecvRequest listener) are "
        "logged, and an offline checker requires: exactly one invocation of the handler of the same RPC, requests equal and "
        "in order, responses equal and in order, UNIMPLEMENTED for a method that is not overridden, a handler's GRPCError "
        "status reaching the caller, and call-level timeout / deadline / metadata taking precedence over stub-level ones "
        "(all 2**6 None/set combinations). Stream lengths 0..k; request sources: list, generator, async generator, "
        "AsyncChannel. Also: request producers that hand control back between items, a handler that refuses (GRPCError) after the first request while the caller is still sending, and a turn-based stream-stream conversation (request i+1 produced only after reply i). distinct = distinct (service, method, scenario) calls.")
ASSUMPTIONS = [
    "grpclib.testing.ChannelFor's in-process transport is the channel; calls are issued one at a time",
    "ruff is replaced by an identity stand-in when the plugin formats its output",
]
FLOORS = {"quick": {"calls": 1200, "methods": 30}, "thorough": {"calls": 40000, "methods": 300}}
ANCHORS = ['ServiceStub._unary_unary', 'ServiceStub._unary_stream', 'ServiceStub._stream_unary', 'ServiceStub._stream_stream', 'ServiceStub._send_messages', 'ServiceBase._call_rpc_handler_server_stream']
CONTRACTS = []
SHARD_TIMEOUT = {"quick": 600, "thorough": 3000}


def plan(tier, seed):
    shards = [{"item": {"kind": "svcmatrix"}, "seed": seed + i, "k": 3 if tier == "quick" else 6, "part": [i, 4]} for i in range(4)]
    for i in range(10 if tier == "quick" else 120):
        shards.append({"item": {"kind": "gen", "seed": seed * 100003 + 20000 + i, "opts": {"names": "keywords", "services": True}},
                       "seed": seed + i, "k": 2 if tier == "quick" else 4})
    shards.append({"item": {"kind": "extra", "name": "deprecated_rpc_only"}, "seed": seed, "k": 2})
    # the service matrix as generated with the other dataclass / typing options (stub and base must still agree, also for
    # well-known request / response types, whose classes differ between the options)
    shards.append({"item": {"kind": "svcmatrix"}, "seed": seed + 7, "k": 1, "opts": "pydantic_dataclasses"})
    shards.append({"item": {"kind": "svcmatrix"}, "seed": seed + 8, "k": 1, "opts": "typing.310"})
    for d in ("service", "example_service", "googletypes_request", "googletypes_response", "import_service_input_message",
              "service_separate_packages", "googletypes_service_returns_empty", "service_uppercase"):
        if d in corpus.inputs_dirs():
            shards.append({"item": {"kind": "inputs", "dir": d}, "seed": seed, "k": 2})
    return shards


def item_protos(item):
    if item["kind"] == "svcmatrix":
        return {n: open(os.path.join(VERIF_DIR, "protos", n)).read() for n in ("svc_types.proto", "svc_matrix.proto")}
    return corpus.item_protos(item)


class Plan:
    """what the recording handler should do for the current call"""

    def __init__(self):
        self.call_id = None
        self.n_responses = 1
        self.error_status = None  # raise GRPCError(status) ...
        self.error_after = 0  # ... after this many responses
        self.log: List[tuple] = []


PLAN = Plan()


def make_impl(base_cls, methods, bpk: BP, b: Build, rng_seed: int):
    """recording subclass of the generated Base: every overridden method logs and answers deterministically"""
    import grpclib

    ns: Dict[str, Any] = {}

    def response_for(rep_mi, k):
        if getattr(PLAN, "default_responses", False) and k % 2 == 0:
            return b.bp_class(rep_mi.full_name)()  # an all-default message is a response like any other
        g = Gen(b, random.Random(f"resp-{rng_seed}-{rep_mi.full_name}-{k}"), max_depth=1)
        g.budget = 12
        r = bpk.make(rep_mi, g.tree(rep_mi, 0, "random"))
        if getattr(PLAN, "bulk", 0) and hasattr(r, "name"):
            r.name = "y" * PLAN.bulk
        return r

    def make(pyname, cs, ss, req_mi, rep_mi):
        if not cs and not ss:
            async def h(self, request):
                PLAN.log.append(("enter", PLAN.call_id, pyname))
                PLAN.log.append(("req", PLAN.call_id, bytes(request), type(request).__name__))
                if PLAN.error_status is not None:
                    PLAN.log.append(("raise", PLAN.call_id, PLAN.error_status.name))
                    raise grpclib.GRPCError(PLAN.error_status, "planned")
                r = response_for(rep_mi, 0)
                PLAN.log.append(("resp", PLAN.call_id, bytes(r)))
                PLAN.log.append(("exit", PLAN.call_id, pyname))
                return r
        elif not cs and ss:
            async def h(self, request):
                PLAN.log.append(("enter", PLAN.call_id, pyname))
                PLAN.log.append(("req", PLAN.call_id, bytes(request), type(request).__name__))
                for k in range(PLAN.n_responses):
                    if PLAN.error_status is not None and k == PLAN.error_after:
                        PLAN.log.append(("raise", PLAN.call_id, PLAN.error_status.name))
                        raise grpclib.GRPCError(PLAN.error_status, "planned")
                    r = response_for(rep_mi, k)
                    PLAN.log.append(("resp", PLAN.call_id, bytes(r)))
                    yield r
                if PLAN.error_status is not None and PLAN.error_after >= PLAN.n_responses:
                    PLAN.log.append(("raise", PLAN.call_id, PLAN.error_status.name))
                    raise grpclib.GRPCError(PLAN.error_status, "planned")
                PLAN.log.append(("exit", PLAN.call_id, pyname))
        elif cs and not ss:
            async def h(self, request_iterator):
                PLAN.log.append(("enter", PLAN.call_id, pyname))
                async for request in request_iterator:
                    PLAN.log.append(("req", PLAN.call_id, bytes(request), type(request).__name__))
                    if PLAN.error_status is not None and getattr(PLAN, "error_early", False):
                        # refuse after the first request, while the caller is still sending
                        PLAN.log.append(("raise", PLAN.call_id, PLAN.error_status.name))
                        raise grpclib.GRPCError(PLAN.error_status, "planned-early")
                if PLAN.error_status is not None:
                    PLAN.log.append(("raise", PLAN.call_id, PLAN.error_status.name))
                    raise grpclib.GRPCError(PLAN.error_status, "planned")
                r = response_for(rep_mi, 0)
                PLAN.log.append(("resp", PLAN.call_id, bytes(r)))
                PLAN.log.append(("exit", PLAN.call_id, pyname))
                return r
        else:
            async def h(self, request_iterator):
                PLAN.log.append(("enter", PLAN.call_id, pyname))
                k = 0
                async for request in request_iterator:
                    PLAN.log.append(("req", PLAN.call_id, bytes(request), type(request).__name__))
                    if PLAN.error_status is not None and getattr(PLAN, "error_early", False):
                        PLAN.log.append(("raise", PLAN.call_id, PLAN.error_status.name))
                        raise grpclib.GRPCError(PLAN.error_status, "planned-early")
                    if k < PLAN.n_responses:
                        r = response_for(rep_mi, k)
                        PLAN.log.append(("resp", PLAN.call_id, bytes(r)))
                        yield r
                        k += 1
                while k < PLAN.n_responses:
                    r = response_for(rep_mi, k)
                    PLAN.log.append(("resp", PLAN.call_id, bytes(r)))
                    yield r
                    k += 1
                if PLAN.error_status is not None:
                    PLAN.log.append(("raise", PLAN.call_id, PLAN.error_status.name))
                    raise grpclib.GRPCError(PLAN.error_status, "planned")
                PLAN.log.append(("exit", PLAN.call_id, pyname))
        h.__name__ = pyname
        return h

    for m in methods:
        if m["override"]:
            ns[m["pyname"]] = make(m["pyname"], m["cs"], m["ss"], m["req_mi"], m["rep_mi"])
    return type("Recording" + base_cls.__name__, (base_cls,), ns)


def _method_name(stub, base, proto_name, handler):
    """python name of the generated method for an rpc: the repository's own naming function, checked against what the
    generated classes define; falls back to the adapter's name"""
    cands = []
    try:
        from betterproto.compile.naming import pythonize_method_name

        cands.append(pythonize_method_name(proto_name))
    except Exception:
        pass
    if handler is not None:
        n = getattr(handler.func, "__name__", "")
        if "__rpc_" in n:
            cands.append(n.split("__rpc_", 1)[1])
    cands += [proto_name, proto_name.lower()]
    for c in cands:
        if hasattr(stub, c) and hasattr(base, c):
            return c
    return cands[0] if cands else proto_name


def describe_service(b: Build, s):
    """generated classes + method table for one ServiceInfo"""
    mod = b.module(s.package)
    key = re.sub(r"[^A-Za-z0-9]", "", s.name).lower()
    base = next((o for n, o in vars(mod).items() if isinstance(o, type) and n.lower() == key + "base"), None)
    stub = next((o for n, o in vars(mod).items() if isinstance(o, type) and n.lower() == key + "stub"), None)
    if base is None or stub is None:
        return None
    mapping = base().__mapping__()
    pk = s.package + "." if s.package else ""
    methods = []
    for md in s.methods:
        route = f"/{pk}{s.name}/{md.name}"
        h = mapping.get(route)
        methods.append({"proto": md.name, "route": route, "handler": h,
                        "pyname": _method_name(stub, base, md.name, h),
                        "cs": md.client_streaming, "ss": md.server_streaming,
                        "req_mi": b.msgs[md.input_type], "rep_mi": b.msgs[md.output_type]})
    return base, stub, methods, mapping


async def drive(b: Build, shard, res: Result):
    import grpclib
    from grpclib.events import RecvRequest, listen
    from grpclib.testing import ChannelFor
    from betterproto.grpc.util.async_channel import AsyncChannel

    rng = random.Random(f"c11-{shard['seed']}")
    bpk = BP(b)
    g = Gen(b, rng, max_depth=2)
    call_ids = itertools.count(1)
    name = shard["item"].get("kind") + ":" + str(shard["item"].get("seed", shard["item"].get("dir", "")))
    for si, s in enumerate(b.services):
        w0 = {"item": shard["item"], "service": s.full_name, "opts": shard.get("opts", "")}
        try:
            d = describe_service(b, s)
        except Exception as e:
            res.violation("generate", ["service-unusable", "raised:" + type(e).__name__, "-"],
                          f"{name}: {s.full_name}: building the handler mapping of the generated Base raised {e!r}", w0)
            continue
        if d is None:
            res.violation("generate", ["service-classes-missing", "-", "-"], f"{name}: {s.full_name}: Stub/Base not generated", w0)
            continue
        base, stub_cls, methods, mapping = d
        for m in methods:
            if m["handler"] is None:
                res.violation("route", ["route-missing", _card(m), "-"], f"{name}: {s.full_name}/{m['proto']} has no handler in __mapping__", dict(w0, method=m["proto"]))
        methods = [m for m in methods if m["handler"] is not None]
        part = shard.get("part")
        # leave one method un-overridden per service (rotating) to observe UNIMPLEMENTED
        for idx, m in enumerate(methods):
            m["override"] = True
        impl_all = make_impl(base, methods, bpk, b, shard["seed"])()
        seen_server_md: Dict[int, dict] = {}

        async def on_recv(event):
            seen_server_md[PLAN.call_id] = {"metadata": dict(event.metadata), "deadline": event.deadline is not None, "method": event.method_name,
                                            "pairs": [(k, v) for k, v in event.metadata.items()]}

        cf = ChannelFor([impl_all])
        async with cf as channel:
            server = channel_for_server(cf)
            if server is not None:
                listen(server, RecvRequest, on_recv)
            else:
                res.extra["server_listener"] = "not attached (ChannelFor layout changed)"
            seen_kwargs: Dict[int, dict] = {}
            real_request = channel.request

            def spy(route, cardinality, request_type, reply_type, **kw):
                seen_kwargs[PLAN.call_id] = dict(kw, route=route, cardinality=cardinality.name)
                return real_request(route, cardinality, request_type, reply_type, **kw)

            channel.request = spy
            for mi_idx, m in enumerate(methods):
                if part and mi_idx % part[1] != part[0]:
                    continue
                if shard.get("only_method") and m["proto"] != shard["only_method"]:
                    continue
                res.counters["methods"] += 1
                scenarios = []
                lens = range(0, shard["k"] + 1)
                for n_req in (lens if m["cs"] else [1]):
                    for n_resp in (lens if m["ss"] else [1]):
                        scenarios.append({"n_req": n_req, "n_resp": n_resp, "src": "list"})
                if m["cs"]:
                    for src in ("generator", "async-generator", "channel"):
                        scenarios.append({"n_req": rng.choice([0, 1, 2]), "n_resp": 1 if not m["ss"] else 2, "src": src})
                if m["cs"]:
                    # request sources that hand control back between items (a real producer), the handler refusing
                    # while the caller is still sending, and a turn-based conversation (request i+1 only after reply i)
                    scenarios.append({"n_req": 3, "n_resp": 1 if not m["ss"] else 3, "src": "paced-async-generator"})
                    scenarios.append({"n_req": 4, "n_resp": 1, "src": "paced-async-generator",
                                      "error": grpclib.const.Status.FAILED_PRECONDITION, "error_early": True})
                    if m["ss"]:
                        scenarios.append({"n_req": 3, "n_resp": 3, "src": "pingpong"})
                scenarios.append({"n_req": 2 if m["cs"] else 1, "n_resp": 3 if m["ss"] else 1, "src": "list", "default_responses": True})
                scenarios.append({"n_req": 1, "n_resp": 1, "src": "list", "error": grpclib.const.Status.NOT_FOUND, "error_after": 0})
                if m["ss"]:
                    scenarios.append({"n_req": 1, "n_resp": 2, "src": "list", "error": grpclib.const.Status.ABORTED, "error_after": 1})
                if m["cs"] and shard["item"].get("kind") == "svcmatrix" and m["proto"] in ("StreamStream", "StreamUnary"):
                    # LONG request streams (hundreds of small messages) from every kind of source
                    for src, n_long in (("list", 129), ("generator", 300), ("async-generator", 257), ("list", 64)):
                        scenarios.append({"n_req": n_long, "n_resp": 1 if not m["ss"] else 2, "src": src})
                if m["cs"] and m["ss"] and shard["item"].get("kind") == "svcmatrix" and m["proto"] == "StreamStream":
                    # volume beyond the HTTP/2 flow-control windows: sending and receiving must overlap
                    scenarios.append({"n_req": 24, "n_resp": 24, "src": "list", "bulk": 400000})
                for sc in scenarios:
                    await one_call(b, bpk, g, rng, stub_cls(channel), m, sc, res, dict(w0, method=m["proto"]), next(call_ids),
                                   seen_kwargs, seen_server_md, name, s)
                # precedence of per-call over stub-level settings: all 2**6 combinations on this method
                if not part or mi_idx % 3 == 0 or True:
                    combos = list(itertools.product([None, "set"], repeat=6))
                    if shard["k"] < 3:
                        rng.shuffle(combos)
                        combos = combos[:16]
                    combos = combos + [("set", None, "set", None, None, "empty"), (None, None, "set", None, None, "empty"),
                                       ("set", "set", "set", "set", "set", "empty")]
                    for st, sd, sm, ct, cd, cm in combos:
                        await precedence_call(b, bpk, g, rng, stub_cls, channel, m, (st, sd, sm, ct, cd, cm), res, dict(w0, method=m["proto"]),
                                              next(call_ids), seen_kwargs, seen_server_md, name)
            # call-level values belong to ONE call: on the same stub object, a call that overrides timeout / metadata is
            # followed by calls that do not -- those must go out with the stub-level defaults again
            if methods:
                m = methods[(shard["seed"] + 1) % len(methods)]
                stub = stub_cls(channel, timeout=31.0, metadata={"x-vf-level": "stub"})
                plan_ = [({"timeout": 32.0, "metadata": {"x-vf-level": "call"}}, 32.0, "call"), ({}, 31.0, "stub"),
                         ({"metadata": {"x-vf-level": "call2"}}, 31.0, "call2"), ({}, 31.0, "stub")]
                for step, (kwargs_, want_to, want_md) in enumerate(plan_):
                    cid = next(call_ids)
                    PLAN.call_id, PLAN.log = cid, []
                    PLAN.n_responses, PLAN.error_status, PLAN.error_early, PLAN.default_responses = 1, None, False, False
                    res.counters["calls"] += 1
                    res.counters["same_stub_sequence_calls"] += 1
                    await client_call(b, bpk, g, rng, stub, m, {"n_req": 1, "n_resp": 1, "src": "list"}, kwargs_)
                    kw = seen_kwargs.get(cid) or {}
                    md = seen_server_md.get(cid)
                    got_md = (md or {}).get("metadata", {}).get("x-vf-level") if md is not None else want_md
                    if kw.get("timeout") != want_to or got_md != want_md:
                        res.violation("precedence", ["same-stub-sequence", f"step{step}", "call-level-value-leaked-into-later-call"],
                                      f"{name}: {m['route']}: call #{step} on one stub (call kwargs {kwargs_}) went out with timeout={kw.get('timeout')!r} "
                                      f"metadata x-vf-level={got_md!r}; expected timeout={want_to} x-vf-level={want_md!r}",
                                      dict(w0, method=m["proto"], scenario="same-stub-sequence"))
                        break
            # metadata given as pairs with a repeated key (grpclib accepts a mapping or pairs): every value reaches the server,
            # from the stub-level default as well as from the call
            if methods:
                m = methods[shard["seed"] % len(methods)]
                for level in ("stub", "call"):
                    pairs = [("x-vf-tag", "alpha"), ("x-vf-tag", "beta"), ("x-vf-one", level)]
                    cid = next(call_ids)
                    PLAN.call_id, PLAN.log = cid, []
                    PLAN.n_responses, PLAN.error_status, PLAN.error_early = 1, None, False
                    res.counters["calls"] += 1
                    res.counters["multi_valued_metadata_calls"] += 1
                    stub = stub_cls(channel, metadata=pairs) if level == "stub" else stub_cls(channel)
                    await client_call(b, bpk, g, rng, stub, m, {"n_req": 1, "n_resp": 1, "src": "list"}, {} if level == "stub" else {"metadata": pairs})
                    md = seen_server_md.get(cid)
                    if md is not None:
                        got = [v for k, v in md.get("pairs", []) if k == "x-vf-tag"]
                        if got != ["alpha", "beta"]:
                            res.violation("precedence", ["metadata", level + "-level-pairs", "values-of-a-repeated-key-lost"],
                                          f"{name}: {m['route']}: {level}-level metadata {pairs} reached the server as x-vf-tag={got}",
                                          dict(w0, method=m["proto"], scenario="multi-valued-metadata"))
        # UNIMPLEMENTED: a server where nothing is overridden
        async with ChannelFor([base()]) as channel:
            stub = stub_cls(channel)
            for mi_idx, m in enumerate(methods):
                if part and mi_idx % part[1] != part[0]:
                    continue
                if shard.get("only_method") and m["proto"] != shard["only_method"]:
                    continue
                cid = next(call_ids)
                PLAN.call_id, PLAN.log = cid, []
                res.counters["calls"] += 1
                res.distinct.add(f"{s.full_name}/{m['proto']}|unimplemented")
                outcome = await client_call(b, bpk, g, rng, stub, m, {"n_req": 1, "n_resp": 1, "src": "list"}, {})
                if outcome.get("status") != "UNIMPLEMENTED":
                    res.violation("unimplemented", ["not-overridden", _card(m), "got:" + str(outcome.get("status") or outcome.get("exc") or "OK")],
                                  f"{name}: {s.full_name}/{m['proto']} not overridden answered {outcome}", dict(w0, method=m["proto"], scenario="unimplemented"))


def channel_for_server(channel):
    # ChannelFor keeps the in-process server; locate it without relying on one attribute name
    import grpclib.server

    for holder in (channel,):
        if holder is None:
            continue
        for v in vars(holder).values():
            if isinstance(v, grpclib.server.Server):
                return v
    return None


def _card(m):
    return ("stream" if m["cs"] else "unary") + "-" + ("stream" if m["ss"] else "unary")


async def client_call(b, bpk, g, rng, stub, m, sc, call_kwargs):
    """performs the call through the generated stub; returns dict(requests, responses, status|exc)"""
    import grpclib
    from betterproto.grpc.util.async_channel import AsyncChannel

    g.budget = 12
    reqs = [bpk.make(m["req_mi"], g.tree(m["req_mi"], 0, "random")) for _ in range(sc["n_req"])]
    if sc.get("bulk"):
        for r in reqs:
            r.name = "x" * sc["bulk"]
    sent = [bytes(r) for r in reqs]
    fn = getattr(stub, m["pyname"])
    out = {"sent": sent, "responses": []}
    try:
        if m["cs"]:
            src = sc.get("src", "list")
            if src == "list":
                arg = reqs
            elif src == "generator":
                arg = (r for r in reqs)
            elif src == "async-generator":
                async def agen():
                    for r in reqs:
                        yield r
                arg = agen()
            elif src == "paced-async-generator":
                async def agen():
                    for r in reqs:
                        await asyncio.sleep(0)
                        await asyncio.sleep(0.002)
                        yield r
                arg = agen()
            elif src == "pingpong":
                turn: asyncio.Queue = asyncio.Queue()

                async def agen():
                    for i, r in enumerate(reqs):
                        if i:
                            await turn.get()  # the next request is only produced once the previous reply arrived
                        yield r
                arg = agen()
            else:
                arg = AsyncChannel()
                await arg.send_from(reqs, close=True)
        else:
            arg = reqs[0]
        if m["ss"]:
            async for resp in fn(arg, **call_kwargs):
                out["responses"].append(bytes(resp))
                out.setdefault("types", []).append(type(resp).__name__)
                if sc.get("src") == "pingpong":
                    turn.put_nowait(1)
        else:
            resp = await fn(arg, **call_kwargs)
            out["responses"].append(bytes(resp))
            out.setdefault("types", []).append(type(resp).__name__)
    except grpclib.GRPCError as e:
        out["status"] = e.status.name
    except Exception as e:
        out["exc"] = type(e).__name__ + ":" + str(e)[:120]
    return out


async def one_call(b, bpk, g, rng, stub, m, sc, res: Result, w, cid, seen_kwargs, seen_server_md, name, s):
    PLAN.call_id, PLAN.log = cid, []
    PLAN.n_responses = sc["n_resp"]
    PLAN.error_status = sc.get("error")
    PLAN.error_after = sc.get("error_after", 0)
    PLAN.error_early = sc.get("error_early", False)
    PLAN.default_responses = sc.get("default_responses", False)
    res.counters["calls"] += 1
    res.counters["source:" + sc["src"]] += 1
    scn = f"req{sc['n_req']}-resp{sc['n_resp']}-{sc['src']}" + (f"-err{sc['error'].name}@{'early' if sc.get('error_early') else sc.get('error_after', 0)}" if sc.get("error") else "") + ("-bulk" if sc.get("bulk") else "") + ("-defaults" if sc.get("default_responses") else "")
    PLAN.bulk = sc.get("bulk", 0)
    res.distinct.add(f"{s.full_name}/{m['proto']}|{scn}")
    ww = dict(w, scenario=scn)
    try:
        out = await asyncio.wait_for(client_call(b, bpk, g, rng, stub, m, sc, {}), timeout=40 if sc.get("bulk") else 20)
    except asyncio.TimeoutError:
        res.violation("call", ["hang", _card(m), sc["src"] + ("-bulk" if sc.get("bulk") else "")], f"{name}: {m['route']} [{scn}] did not finish", ww)
        return
    log = list(PLAN.log)
    card = _card(m)
    enters = [e for e in log if e[0] == "enter"]
    if len(enters) != 1:
        res.violation("dispatch", ["handler-invocations=" + str(len(enters)), card, sc["src"] + ("-empty" if sc["n_req"] == 0 else "")],
                      f"{name}: {m['route']} [{scn}]: {len(enters)} handler invocations; client outcome {_short(out)}", ww)
        return
    if enters[0][2] != m["pyname"]:
        res.violation("dispatch", ["wrong-handler", card, "-"], f"{name}: {m['route']} reached handler {enters[0][2]!r}", ww)
    got_reqs = [e[2] for e in log if e[0] == "req"]
    if sc.get("error_early"):
        # the handler stopped reading: what it saw must be a prefix of what was sent
        if got_reqs != out["sent"][: len(got_reqs)] or not got_reqs:
            res.violation("requests", ["requests-differ", card, sc["src"] + "-early-error"],
                          f"{name}: {m['route']} [{scn}]: handler saw {[x.hex()[:40] for x in got_reqs]} client sent {[x.hex()[:40] for x in out['sent']]}", ww)
    elif got_reqs != out["sent"]:
        res.violation("requests", ["requests-differ", card, sc["src"]],
                      f"{name}: {m['route']} [{scn}]: handler saw {[x.hex()[:40] for x in got_reqs]} client sent {[x.hex()[:40] for x in out['sent']]}", ww)
    if any(e[3] != b.bp_class(m["req_mi"].full_name).__name__ for e in log if e[0] == "req"):
        res.violation("requests", ["request-type-differs", card, "-"], f"{name}: {m['route']}: handler got {set(e[3] for e in log if e[0] == 'req')}", ww)
    produced = [e[2] for e in log if e[0] == "resp"]
    raised = [e for e in log if e[0] == "raise"]
    if raised:
        if out.get("status") != raised[0][2]:
            res.violation("status", ["handler-error-not-propagated", card, "got:" + str(out.get("status") or out.get("exc") or "OK")],
                          f"{name}: {m['route']} [{scn}]: handler raised {raised[0][2]} but caller saw {_short(out)}", ww)
        if out["responses"] != produced[: len(out["responses"])]:
            res.violation("responses", ["responses-before-error-differ", card, "-"], f"{name}: {m['route']} [{scn}]", ww)
    else:
        if out.get("status") or out.get("exc"):
            res.violation("call", ["unexpected-error", card, (out.get("status") or out.get("exc")).split(":")[0] + ("-empty-request-stream" if m["cs"] and sc["n_req"] == 0 else "")],
                          f"{name}: {m['route']} [{scn}]: caller saw {_short(out)}", ww)
        elif out["responses"] != produced:
            res.violation("responses", ["responses-differ", card, "-"],
                          f"{name}: {m['route']} [{scn}]: handler produced {len(produced)} responses, caller received {len(out['responses'])} / content differs", ww)
        elif any(t != b.bp_class(m["rep_mi"].full_name).__name__ for t in out.get("types", [])):
            res.violation("responses", ["response-type-differs", card, "-"], f"{name}: {m['route']}: caller got {set(out.get('types', []))}", ww)
    kw = seen_kwargs.get(cid)
    if kw is None or kw.get("route") != m["route"] or kw.get("cardinality") != (("STREAM" if m["cs"] else "UNARY") + "_" + ("STREAM" if m["ss"] else "UNARY")):
        res.violation("dispatch", ["channel-request-route-or-cardinality", card, "-"], f"{name}: {m['route']}: Channel.request saw {kw}", ww)
    if len(res.samples) < 2:
        res.sample({"route": m["route"], "scenario": scn, "events": [(e[0],) + tuple(str(x)[:30] for x in e[2:]) for e in log][:8]})


async def precedence_call(b, bpk, g, rng, stub_cls, channel, m, combo, res: Result, w, cid, seen_kwargs, seen_server_md, name):
    from grpclib.metadata import Deadline

    st, sd, sm, ct, cd, cm = combo
    # "empty" = a call-level value that is set but falsy (empty metadata): it still takes precedence
    vals = {
        "stub": {"timeout": 31.0 if st else None, "deadline": Deadline.from_timeout(41.0) if sd else None, "metadata": {"x-vf-level": "stub"} if sm else None},
        "call": {"timeout": 32.0 if ct else None, "deadline": Deadline.from_timeout(42.0) if cd else None,
                 "metadata": ({} if cm == "empty" else {"x-vf-level": "call"}) if cm else None},
    }
    stub = stub_cls(channel, **vals["stub"])
    PLAN.call_id, PLAN.log = cid, []
    PLAN.n_responses, PLAN.error_status = 1, None
    res.counters["calls"] += 1
    res.counters["precedence_calls"] += 1
    tag = "".join(("E" if x == "empty" else "S") if x else "-" for x in combo)
    res.distinct.add(f"{m['route']}|precedence:{tag}")
    ww = dict(w, scenario="precedence:" + tag)
    await client_call(b, bpk, g, rng, stub, m, {"n_req": 1, "n_resp": 1, "src": "list"}, vals["call"])
    kw = seen_kwargs.get(cid)
    if kw is None:
        res.violation("precedence", ["channel-request-not-called", _card(m), tag], f"{name}: {m['route']}", ww)
        return
    for key in ("timeout", "deadline", "metadata"):
        want = vals["call"][key] if vals["call"][key] is not None else vals["stub"][key]
        if kw.get(key) is not want and kw.get(key) != want:
            which = ("call-set-but-empty" if not vals["call"][key] else "call-set") if vals["call"][key] is not None else ("stub-only" if vals["stub"][key] is not None else "neither")
            res.violation("precedence", [key, which, "wrong-value-passed-to-channel"],
                          f"{name}: {m['route']} [{tag}]: Channel.request got {key}={kw.get(key)!r}, expected {want!r}", ww)
    md = seen_server_md.get(cid)
    want_md = vals["call"]["metadata"] if vals["call"]["metadata"] is not None else vals["stub"]["metadata"]
    if md is not None:
        got = md["metadata"].get("x-vf-level")
        if (want_md or {}).get("x-vf-level") != got:
            res.violation("precedence", ["metadata", "server-side", "wrong-metadata-reached-server"],
                          f"{name}: {m['route']} [{tag}]: server saw x-vf-level={got!r}, expected {(want_md or {}).get('x-vf-level')!r}", ww)
        any_deadline = any(vals[x][k] is not None for x in ("stub", "call") for k in ("timeout", "deadline"))
        if md["deadline"] != any_deadline:
            res.violation("precedence", ["deadline", "server-side", "deadline-presence-differs"],
                          f"{name}: {m['route']} [{tag}]: server saw a deadline={md['deadline']}, client set one={any_deadline}", ww)
    else:
        res.counters["server_metadata_not_observed"] += 1


def _short(out):
    return {k: (v if k != "sent" and k != "responses" else len(v)) for k, v in out.items()}


def run_shard(shard) -> Result:
    res = Result()
    try:
        b = Build(item_protos(shard["item"]), shard.get("opts", "")).full()
    except BuildError as e:
        if e.stage == "protoc":
            res.discards["protoc-rejected-schema"] += 1
        else:
            res.violation("generate", [e.stage, "-", "-"], f"{shard['item']}: {e.detail[-700:]}", {"item": shard["item"]})
        return res
    try:
        if not b.services:
            res.discards["schema-without-service"] += 1
            return res
        res.evaluations += 1
        asyncio.run(drive(b, shard, res))
        res.evaluations = res.counters.get("calls", 0)
    except Exception as e:
        res.inconclusive.append(f"oracle crashed: {type(e).__name__}: {e}\n{traceback.format_exc()[-1800:]}")
    finally:
        b.cleanup()
    return res


def replay(w):
    r = run_shard({"item": w["item"], "seed": 0, "k": 3, "only_method": w.get("method"), "opts": w.get("opts", "")})
    return [v for v in r.violations if v["witness"].get("service", w.get("service")) == w.get("service")]


RULE += ' Request streams of 64..300 messages from list / generator / async generator on the stream-unary and stream-stream methods of the service matrix.'
