"""C05 JSON output and input follow the canonical proto3 JSON mapping."""
from __future__ import annotations

from ..core import Result
from ..valuework import plan_items, replay_value, run_value_shard
from ..values import diff_signature, diff_trees
from .c01 import carrier_sig, isolate_deep

PROP = "C05"
LEVEL = "exploration"
RULE = ("the C01 population (matrix / random / maximal trees; microsecond-resolution times) in both directions: "
        "(emit) betterproto to_json -> google.protobuf.json_format.Parse for the same schema must be accepted and give "
        "the tree; (accept) json_format.MessageToJson (also with always_print_fields_with_no_presence) -> betterproto "
        "from_json must be accepted and give the tree. Failures are located by neutral-tree diff or one-field projections "
        "(recursively) and keyed (direction, carrier kind/label, value class, failure). distinct = distinct (schema, type, tree).")
ASSUMPTIONS = [
    "reference = google.protobuf.json_format of protobuf 7.x on classes from a private DescriptorPool built from the same protoc run",
    "field names are snake_case words, Python keywords and builtins (digit-bearing / camelCase names are C19's workload)",
    "an enum whose generated member names differ from the proto value names (prefix stripped by the plugin) is tagged 'renamed' in signatures",
    "ruff is replaced by an identity stand-in when the plugin formats its output",
]
FLOORS = {"quick": {"evaluations": 1500, "emit_compared": 1200, "accept_compared": 1200},
          "thorough": {"evaluations": 60000, "emit_compared": 50000, "accept_compared": 50000}}
ANCHORS = ['Message.to_dict', 'Message._from_dict_init', '_dump_float', '_parse_float', 'camel_case']
CONTRACTS = []


def plan(tier, seed):
    return plan_items(tier, seed, n_gen_quick=8, n_gen_thorough=250, n_quick=80, n_thorough=500)


def _renamed(b, fi) -> bool:
    """does the generated enum use member names different from the proto value names?"""
    inner = fi.map_value if fi.label == "map" else fi
    if inner is None or inner.kind != "enum":
        return False
    try:
        ecls = b.bp_enum(inner.type_name)
        for name, num in b.enums[inner.type_name].values:
            if name not in ecls.__members__:
                return True
    except Exception:
        return False
    return False


import re as _re

_PLAIN = _re.compile(r"[a-z]+(_[a-z]+)*")


def _marks(b, fi) -> str:
    m = ""
    if fi is not None and _renamed(b, fi):
        m += "(renamed)"
    if fi is not None and not _PLAIN.fullmatch(fi.name):
        m += "(odd-name)"  # upper-case letters or digits in the proto field name: C19's name-mapping class
    return m


def _contains_renamed(b, fi, depth) -> bool:
    inner = fi.map_value if fi.label == "map" else fi
    if inner is None or inner.kind != "message" or inner.wkt is not None or depth > 3:
        return False
    sub = b.msgs.get(inner.type_name)
    if sub is None:
        return False
    for f in sub.fields:
        if _renamed(b, f) or _contains_renamed(b, f, depth + 1):
            return True
    return False


def _sig(b, fi, v, d=None):
    cs = diff_signature(b, d) if d is not None else carrier_sig(b, fi, v)
    return [cs[0] + _marks(b, fi)] + cs[1:]


def _safe_pred(pred, t):
    try:
        return pred(t)
    except Exception:
        return False


def emit(b, bp, ref, mi, tree):
    """('ok', ref tree) | ('fail', stage, detail)"""
    from google.protobuf import json_format

    try:
        text = bp.make(mi, tree, "ctor").to_json()
    except Exception as e:
        return ("fail", "to_json-raises:" + type(e).__name__, repr(e)[:300])
    try:
        r = json_format.Parse(text, b.ref_class(mi.full_name)())
    except Exception as e:
        return ("fail", "reference-rejects", f"{str(e)[:200]} json={text[:200]}")
    return ("ok", ref.norm(mi, r), text)


def accept(b, bp, ref, mi, tree, always: bool):
    from google.protobuf import json_format

    r = ref.make(mi, tree)
    text = json_format.MessageToJson(r, always_print_fields_with_no_presence=always)
    try:
        m = b.bp_class(mi.full_name)().from_json(text)
    except Exception as e:
        return ("fail", "from_json-raises:" + type(e).__name__, f"{e!r} json={text[:200]}"[:400])
    problems = []
    try:
        t = bp.norm(mi, m, problems)
    except Exception as e:
        return ("fail", "unreadable:" + type(e).__name__, repr(e)[:200])
    return ("ok", t, text, problems)


def check_case(b, bp, ref, mi, tree, res: Result, w, rng):
    dirs = [w["dir"]] if w.get("dir") else ["emit", "accept", "accept-always"]
    try:
        bp.make(mi, tree, "ctor")
    except Exception:
        res.note("unbuildable")
        return
    for direction in dirs:
        ww = dict(w, dir=direction)
        if direction == "emit":
            out = emit(b, bp, ref, mi, tree)
            res.note("emit_compared")
        else:
            out = accept(b, bp, ref, mi, tree, direction == "accept-always")
            res.note("accept_compared")
        dname = "emit" if direction == "emit" else "accept"
        if out[0] == "fail":
            stage = out[1]

            def pred(t, direction=direction, stage=stage):
                o = emit(b, bp, ref, mi, t) if direction == "emit" else accept(b, bp, ref, mi, t, direction == "accept-always")
                return not (o[0] == "fail" and o[1] == stage)

            if not _safe_pred(pred, {}):
                # the empty message already fails (always-printed defaults): attribute to a renamed enum field if any
                cul = next((f for f in mi.fields if f.kind == "enum" and f.label != "map" and _renamed(b, f)), None)
                bad = [(cul, 0)] if cul is not None else []
                if not bad:
                    res.violation(dname, [dname, "empty-message", "defaults", stage], f"{mi.full_name} [{direction}]: {out[2]}", ww)
                    continue
            else:
                bad = isolate_deep(b, mi, tree, pred)
            for fi, v in bad or [(None, None)]:
                cs = _sig(b, fi, v) if fi is not None else ["combination", "?"]
                if (fi is not None and direction == "accept-always" and "(renamed)" not in cs[0]
                        and _contains_renamed(b, fi, 0)):
                    # always-printed default of a renamed enum somewhere inside this sub-message
                    cs = [cs[0] + "(renamed)"] + cs[1:]
                res.violation(dname, [dname] + cs + [stage], f"{mi.full_name} [{direction}]: {out[2][:600]}", ww)
            continue
        got = out[1]
        for d in diff_trees(b, mi, tree, got):
            res.violation(dname, [dname] + _sig(b, d.fi, None, d), f"{mi.full_name} [{direction}]: {d.short()} json={out[2][:200]}", ww)
        if direction != "emit":
            for p, what in out[3]:
                from .c17 import _field_at

                fi = _field_at(b, mi, p)
                res.violation(dname, [dname, (fi.cls_key() if fi else "?") + _marks(b, fi), what, "type"],
                              f"{mi.full_name}{p} [{direction}]: {what} json={out[2][:200]}", ww)


def run_shard(shard):
    return run_value_shard(shard, PROP, check_case, CONTRACTS)


def replay(w):
    return replay_value(w, check_case, PROP, CONTRACTS)


RULE += " Also 'large' shards (one field per case with 127..70000 bytes / 31..2100 elements / 31..257 entries) and an 'after failures' shard."
