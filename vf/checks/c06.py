"""C06 Proto3 defaults and field presence are encoded and recovered correctly."""
from __future__ import annotations

import base64
import random
import traceback
from datetime import datetime, timedelta, timezone

from .. import corpus, monitors, spec
from ..build import BuildError
from ..core import Result
from ..values import (BP, NAN, REF, is_negzero, Gen, attr_names, canon, default_of, diff_signature, diff_trees, du_to_td,
                      tree_from_json, tree_to_json, ts_to_dt, value_class)

PROP = "C06"
LEVEL = "exploration"
RULE = ("for every message type of the corpus: (1) a fresh message reads every field as the proto3 default of its kind "
        "(independent table) and encodes to b''; (2) the single-field matrix, enumerated completely on the matrix schema "
        "and sampled on G-schema sets / tests/inputs: every field x {never set, type default, non-default boundary "
        "values} x route {constructor, attribute assignment, parse of reference bytes, from_dict}: which field numbers are "
        "on the wire is read by the spec codec and compared with the proto3 rule (implicit presence: default never "
        "emitted; optional / oneof / wrapper: emitted when set, default included; plain sub-message: emitted iff "
        "serialized_on_wire); after decoding the same bytes, betterproto's presence report (is not None / is_set / "
        "which_one_of / serialized_on_wire) must equal google.protobuf's HasField / WhichOneof; (3) random pairs and "
        "triples of fields. is_set is compared for optional fields and oneof members; never-set fields are also spelled as JSON null on the from_dict route; after each type's workload a fresh message must be fresh again although lazily created defaults of other objects were used in place. distinct = distinct (type, field set, value classes, route).")
ASSUMPTIONS = [
    "is_set() is compared for proto3-optional fields and oneof members (for other fields lazy default materialisation flips it; proto3 defines no presence there)",
    "a non-optional Timestamp/Duration has no presence in betterproto (documented epoch / zero default): only its value is compared",
    "the from_dict route passes python-typed values keyed by the generated field name (dict path)",
    "ruff is replaced by an identity stand-in when the plugin formats its output",
]
FLOORS = {"quick": {"cells": 6000, "fresh_messages": 100, "presence_compared": 6000},
          "thorough": {"cells": 150000, "fresh_messages": 2000, "presence_compared": 150000}}
ANCHORS = ['Message.dump', 'Message.__getattribute__', '_serialize_single', 'Message.is_set', 'serialized_on_wire', 'which_one_of', 'Message._get_field_default_gen']
CONTRACTS = ["bytes", "oneof"]
ROUTES = ("ctor", "attr", "parse", "from_dict", "inplace")


def plan(tier, seed):
    items = corpus.value_items(tier, seed, 8 if tier == "quick" else 96)
    shards = []
    for i, it in enumerate(items):
        if it["kind"] == "matrix":
            for pi in range(12):
                shards.append({"item": it, "seed": seed * 131 + pi, "part": [pi, 12], "full": True,
                               "combos": 60 if tier == "quick" else 1500})
        else:
            shards.append({"item": it, "seed": seed * 131 + 100 + i, "full": False,
                           "combos": 40 if tier == "quick" else 400})
    return shards


def py_default(b, fi):
    """independent table of what reading a never-set field must give"""
    if fi.label == "repeated":
        return []
    if fi.label == "map":
        return {}
    if fi.label == "optional":
        return None
    if fi.wkt and fi.wkt.startswith("wrapper:"):
        return None
    if fi.wkt == "timestamp":
        return datetime(1970, 1, 1, tzinfo=timezone.utc)
    if fi.wkt == "duration":
        return timedelta(0)
    if fi.kind == "message":
        return "MESSAGE"
    return default_of(fi)


def to_pydict(b, mi, tree):
    """dict-path input for from_dict: python field names, JSON-style values written independently"""
    cls = b.bp_class(mi.full_name)
    names = attr_names(cls)
    out = {}
    for fi in mi.fields:
        if fi.number not in tree:
            if fi.number % 2 and fi.number in names:
                out[names[fi.number]] = None  # JSON null: "not set", for every kind of field (never selects a oneof member)
            continue
        v = tree[fi.number]
        if fi.label == "repeated":
            out[names[fi.number]] = [_json_leaf(b, fi, x) for x in v]
        elif fi.label == "map":
            # map values are passed python-typed: from_dict does not convert map values except
            # messages (that is C04/C05's finding, not a presence matter)
            out[names[fi.number]] = {k: _map_leaf(b, fi.map_value, x) for k, x in v.items()}
        else:
            out[names[fi.number]] = _json_leaf(b, fi, v)
    return out


def _map_leaf(b, fi, v):
    if fi.wkt in ("timestamp", "duration"):
        return _json_leaf(b, fi, v)
    if fi.kind == "message":
        return to_pydict(b, b.msgs[fi.type_name], v)
    return float("nan") if v == NAN else v


def _json_leaf(b, fi, v):
    if fi.wkt == "timestamp":
        dt = ts_to_dt(v[1], v[2])
        s = dt.strftime("%Y-%m-%dT%H:%M:%S") if dt.year >= 1000 else f"{dt.year:04d}-" + dt.strftime("%m-%dT%H:%M:%S")
        if dt.microsecond:
            s += f".{dt.microsecond:06d}"
        return s + "Z"
    if fi.wkt == "duration":
        s, n = v[1], v[2]
        sign = "-" if (s < 0 or n < 0) else ""
        return f"{sign}{abs(s)}.{abs(n) // 1000:06d}s"
    if fi.wkt and fi.wkt.startswith("wrapper:"):
        return float("nan") if v == NAN else v
    if fi.kind == "message":
        return to_pydict(b, b.msgs[fi.type_name], v)
    if fi.kind == "bytes":
        return base64.b64encode(v).decode()
    if fi.kind in ("int64", "uint64", "sint64", "fixed64", "sfixed64"):
        return str(v)
    if fi.kind in ("float", "double"):
        if v == NAN:
            return "NaN"
        if v == float("inf"):
            return "Infinity"
        if v == float("-inf"):
            return "-Infinity"
        return v
    return v


def build_route(b, bp, ref, mi, tree, route):
    cls = b.bp_class(mi.full_name)
    if route == "parse":
        return cls().parse(ref.make(mi, tree).SerializeToString())
    if route == "from_dict":
        return cls().from_dict(to_pydict(b, mi, tree))
    return bp.make(mi, tree, route)


def expected_on_wire(b, mi, tree):
    """numbers that must be on the wire by the proto3 rules, and numbers that must not; plain singular
    sub-messages are judged separately (emitted iff serialized_on_wire)"""
    must, must_not, by_flag = set(), set(), set()
    ct = canon(b, mi, tree)
    for fi in mi.fields:
        if fi.label == "singular" and fi.kind == "message" and fi.wkt is None:
            if fi.number in tree:
                # a tree entry means "present" (an empty tree = received / loaded empty): every route that
                # carries it (parse of bytes holding it, from_dict of {}, assignment of a received-empty message)
                # must emit it; serialized_on_wire is compared with the wire in any case
                must.add(fi.number)
            by_flag.add(fi.number)
            continue
        if fi.number not in tree:
            must_not.add(fi.number)
        elif fi.label in ("optional", "oneof") or (fi.wkt or "").startswith("wrapper:"):
            must.add(fi.number)
        elif fi.number in ct:
            must.add(fi.number)
        else:
            must_not.add(fi.number)
    return must, must_not, by_flag


def bp_presence(b, mi, m):
    import betterproto

    names = attr_names(type(m))
    out = {}
    sel = {g: betterproto.which_one_of(m, g)[0] for g in mi.oneofs}
    for fi in mi.fields:
        nm = names[fi.number]
        if fi.label == "oneof":
            out[fi.number] = (sel[fi.group] == nm)
            try:
                if m.is_set(nm) != (sel[fi.group] == nm):
                    out[("is_set", fi.number)] = m.is_set(nm)
            except Exception:
                out[("is_set", fi.number)] = "raised"
        elif fi.label == "optional":
            v = getattr(m, nm)
            out[fi.number] = v is not None
            if m.is_set(nm) != (v is not None):
                out[("is_set", fi.number)] = m.is_set(nm)
        elif (fi.wkt or "").startswith("wrapper:"):
            out[fi.number] = getattr(m, nm) is not None
        elif fi.label == "singular" and fi.kind == "message" and fi.wkt is None:
            out[fi.number] = bool(betterproto.serialized_on_wire(getattr(m, nm)))
    return out


def ref_presence(b, mi, r):
    out = {}
    for fi in mi.fields:
        if fi.label in ("oneof", "optional") or (fi.label == "singular" and fi.kind == "message" and fi.wkt not in ("timestamp", "duration")):
            out[fi.number] = r.HasField(fi.name)
    return out


def check_tree(b, bp, ref, mi, tree, classes, res: Result, w, routes=ROUTES):
    """classes: {field number: 'default'|'nondefault'} for signatures"""
    import betterproto

    cls = b.bp_class(mi.full_name)
    rcls = b.ref_class(mi.full_name)
    must, must_not, by_flag = expected_on_wire(b, mi, tree)
    names = attr_names(cls)
    for route in routes:
        if route == "inplace" and not any(mi.field(n).label in ("repeated", "map") or
                                          (mi.field(n).label == "singular" and mi.field(n).kind == "message" and mi.field(n).wkt is None)
                                          for n in tree):
            continue
        ww = dict(w, route=route, tree=tree_to_json(tree), classes={str(k): v for k, v in classes.items()})
        res.note("cells")
        res.distinct.add(f"{mi.full_name}|{sorted(classes.items())}|{route}|{hash(repr(tree_to_json(tree)))}")
        try:
            m = build_route(b, bp, ref, mi, tree, route)
            data = bytes(m)
        except Exception as e:
            from .c01 import isolate_deep

            exc = type(e).__name__

            def pred(t, route=route, exc=exc):
                try:
                    bytes(build_route(b, bp, ref, mi, t, route))
                    return True
                except Exception as e2:
                    return type(e2).__name__ != exc

            bad = isolate_deep(b, mi, tree, pred)
            for fi, v in bad or [(None, None)]:
                res.violation("build-raises", [route, fi.cls_key() if fi else "combination", classes.get(fi.number, "nondefault") if fi else "?", "raised:" + exc],
                              f"{mi.full_name} via {route}: {e!r}", ww)
            continue
        try:
            wire = set(spec.field_numbers_on_wire(data))
        except spec.WireError as e:
            res.violation("wire-unreadable", [route, type(e).__name__], f"{mi.full_name}: {data.hex()[:200]}", ww)
            continue
        for fi in mi.fields:
            n = fi.number
            sigbase = [route, fi.cls_key(), classes.get(n, "never")]
            if n in must and n not in wire:
                if isinstance(tree[n], dict) and fi.kind == "message" and fi.label != "map":
                    vc = value_class(fi.kind, tree[n], b, fi.type_name)
                else:
                    vc = value_class(fi.kind, tree[n]) if not isinstance(tree[n], (list, dict)) else "container"
                res.violation("not-emitted", sigbase + [vc, "set-but-not-on-wire"],
                              f"{mi.full_name}.{fi.name} ({fi.cls_key()}) set to {tree[n]!r} via {route} is not on the wire: {data.hex()[:160]}", ww)
            if n in must_not and n in wire:
                res.violation("emitted", sigbase + ["default-or-unset-on-wire"],
                              f"{mi.full_name}.{fi.name} ({fi.cls_key()}) {'at its default' if n in tree else 'never set'} via {route} is on the wire: {data.hex()[:160]}", ww)
            if n in by_flag:
                try:
                    flag = bool(betterproto.serialized_on_wire(getattr(m, names[n])))
                except Exception as e:
                    flag = None
                if flag is not None and flag != (n in wire):
                    vcm = value_class(fi.kind, tree[n], b, fi.type_name) if n in tree else "unset"
                    res.violation("submessage-flag", sigbase + [vcm, f"serialized_on_wire={flag}", f"on-wire={n in wire}"],
                                  f"{mi.full_name}.{fi.name}: serialized_on_wire={flag} but on wire={n in wire} (route {route}); bytes {data.hex()[:120]}", ww)
        # decode and compare presence with the reference on the same bytes
        try:
            m2 = cls().parse(data)
            r2 = rcls.FromString(data)
        except Exception as e:
            res.violation("decode-raises", [route, type(e).__name__], f"{mi.full_name}: {e!r} on {data.hex()[:160]}", ww)
            continue
        bpp = bp_presence(b, mi, m2)
        rp = ref_presence(b, mi, r2)
        res.note("presence_compared")
        # the same message travelling through the size-delimited entry points (dump / load with SIZE_DELIMITED, two frames)
        # must report the same presence as through bytes / parse
        try:
            import io

            if route not in ("ctor", "attr"):
                raise StopIteration
            s_ = io.BytesIO()
            m.dump(s_, betterproto.SIZE_DELIMITED)
            m.dump(s_, betterproto.SIZE_DELIMITED)
            s_.seek(0)
            for k_ in range(2):
                m3 = cls().load(s_, betterproto.SIZE_DELIMITED)
                if bp_presence(b, mi, m3) != bpp or bytes(m3) != bytes(m2):
                    res.violation("presence-after-decode", [route, "size-delimited-entry-point", "differs-from-parse"],
                                  f"{mi.full_name}: frame {k_} of dump/load SIZE_DELIMITED gives presence {bp_presence(b, mi, m3)} / bytes {bytes(m3).hex()[:100]}, parse gives {bpp} / {bytes(m2).hex()[:100]}", ww)
                    break
            res.note("presence_compared_delimited")
        except StopIteration:
            pass
        except Exception as e:
            res.violation("presence-after-decode", [route, "size-delimited-entry-point", "raised:" + type(e).__name__],
                          f"{mi.full_name}: dump/load SIZE_DELIMITED of a message that bytes/parse handle: {e!r}; bytes {data.hex()[:120]}", ww)
        for n, have in rp.items():
            fi = mi.field(n)
            if n in bpp and bpp[n] != have:
                res.violation("presence-after-decode", [route, fi.cls_key(), classes.get(n, "never"), f"bp={bpp[n]}", f"ref={have}"],
                              f"{mi.full_name}.{fi.name}: betterproto reports set={bpp[n]} but reference HasField={have} on {data.hex()[:160]}", ww)
        for k, v in bpp.items():
            if isinstance(k, tuple):
                fi = mi.field(k[1])
                res.violation("is_set", [route, fi.cls_key(), classes.get(k[1], "never"), f"is_set={v}"],
                              f"{mi.full_name}.{fi.name}: is_set disagrees with 'is not None' after decode", ww)
        for g, members in mi.oneofs.items():
            sel = betterproto.which_one_of(m2, g)[0]
            rsel = r2.WhichOneof(g)
            want = names[mi.field(next(n for n in members if mi.field(n).name == rsel)).number] if rsel else ""
            if sel != want:
                res.violation("which-oneof-after-decode", [route, "oneof", f"bp={bool(sel)}", f"ref={bool(rsel)}"],
                              f"{mi.full_name}: which_one_of({g})={sel!r} but reference WhichOneof={rsel!r} on {data.hex()[:160]}", ww)


def _use_defaults_in_place(b, ref, mi):
    """a history on OTHER objects: lazily created default sub-messages are used in place (parse(b""), from_dict({}),
    self-assignment), every oneof member is selected by decoding reference bytes, then everything is dropped"""
    cls = b.bp_class(mi.full_name)
    names = attr_names(cls)
    for fi in mi.fields:
        nm = names.get(fi.number)
        if nm is None:
            continue
        try:
            if fi.kind == "message" and fi.wkt is None and fi.label == "singular":
                a = cls()
                getattr(a, nm).parse(b"")
                a2 = cls()
                getattr(a2, nm).from_dict({})
                a3 = cls()
                setattr(a3, nm, getattr(a3, nm))
                bytes(a), bytes(a2), bytes(a3)
            if fi.label == "oneof":
                r = b.ref_class(mi.full_name)()
                if fi.kind == "message":
                    getattr(r, fi.name).SetInParent()
                elif fi.kind in ("string",):
                    setattr(r, fi.name, "")
                elif fi.kind == "bytes":
                    setattr(r, fi.name, b"")
                elif fi.kind in ("float", "double"):
                    setattr(r, fi.name, 0.0)
                elif fi.kind == "bool":
                    setattr(r, fi.name, False)
                else:
                    setattr(r, fi.name, 0)
                a = cls().parse(r.SerializeToString())
                a.to_dict(), bytes(a)
        except Exception:
            pass


def check_fresh(b, mi, res: Result, w):
    import betterproto

    cls = b.bp_class(mi.full_name)
    names = attr_names(cls)
    res.note("fresh_messages")
    m = cls()
    try:
        data = bytes(m)
    except Exception as e:
        res.violation("fresh", ["bytes-raised", type(e).__name__], f"bytes({mi.full_name}()) raised {e!r}", w)
        return
    if data != b"":
        res.violation("fresh", ["fresh-message-not-empty"], f"bytes({mi.full_name}()) = {data.hex()}", w)
    for fi in mi.fields:
        nm = names.get(fi.number)
        if fi.label == "oneof":
            try:
                getattr(cls(), nm)
                res.violation("fresh", [fi.cls_key(), "unset-oneof-member-readable"], f"{mi.full_name}().{nm} readable", w)
            except AttributeError:
                pass
            continue
        want = py_default(b, fi)
        try:
            got = getattr(cls(), nm)
        except Exception as e:
            res.violation("fresh", [fi.cls_key(), "read-raised:" + type(e).__name__], f"{mi.full_name}().{nm}: {e!r}", w)
            continue
        if want == "MESSAGE":
            ok = isinstance(got, betterproto.Message) and not betterproto.serialized_on_wire(got) and bytes(got) == b""
        elif fi.kind == "enum" and fi.label == "singular":
            ok = (got == 0) and isinstance(got, int)
        else:
            # value equality is what the property states; only clearly different kinds are told apart
            # (a bool is not an int field's 0, text is not bytes, None only where None is the default)
            ok = (got == want) and (got is None) == (want is None) and isinstance(got, bool) == isinstance(want, bool) \
                and isinstance(got, str) == isinstance(want, str) and isinstance(got, (list, dict)) == isinstance(want, (list, dict))
        if not ok:
            res.violation("fresh", [fi.cls_key(), "wrong-default"], f"{mi.full_name}().{nm} = {got!r}, proto3 default is {want!r}", w)
    # "it was received": an EMPTY encoding received through any binary entry point yields a message that reports
    # serialized_on_wire (which is what makes a plain sub-message field holding it appear on the wire)
    import io

    entries = {"parse": lambda: cls().parse(b""), "FromString": lambda: cls.FromString(b""),
               "load-until-eof": lambda: cls().load(io.BytesIO(b"")),
               "load-size-delimited": lambda: cls().load(io.BytesIO(b"\x00\x7f"), betterproto.SIZE_DELIMITED),
               "load-size-0": lambda: cls().load(io.BytesIO(b"\x7f"), 0)}
    for ep, fn in entries.items():
        res.counters["received_empty_entry_points"] += 1
        try:
            got = fn()
        except Exception as e:
            res.violation("received", ["empty-encoding", ep, "raised:" + type(e).__name__], f"{mi.full_name}: {ep} of an empty encoding raised {e!r}", w)
            continue
        if not betterproto.serialized_on_wire(got) or bytes(got) != b"":
            res.violation("received", ["empty-encoding", ep, f"serialized_on_wire={bool(betterproto.serialized_on_wire(got))}"],
                          f"{mi.full_name}: a message received through {ep} from an empty encoding reports serialized_on_wire="
                          f"{betterproto.serialized_on_wire(got)} and encodes to {bytes(got).hex()!r}", w)
    # reading (also nested lazily created defaults) must leave a fresh message fresh
    fresh = cls()
    try:
        _read_deep(fresh, 2)
        after = bytes(fresh)
        if after != b"":
            res.violation("fresh", ["read-then-encode", "fresh-message-not-empty-after-reads"],
                          f"{mi.full_name}: after merely reading its fields (depth 2) a fresh message encodes to {after.hex()}", w)
        for fi in mi.fields:
            if fi.label == "singular" and fi.kind == "message" and fi.wkt is None:
                sub = getattr(fresh, names[fi.number])
                if betterproto.serialized_on_wire(sub):
                    res.violation("fresh", ["read-then-flag", fi.cls_key()],
                                  f"{mi.full_name}.{fi.name}: serialized_on_wire is True after merely reading the sub-message's fields", w)
    except Exception as e:
        res.violation("fresh", ["read-raised:" + type(e).__name__, "-"], f"{mi.full_name}: reading fields of a fresh message: {e!r}", w)
    if cls.FromString(b"") != cls() or bytes(cls().parse(b"")) != b"":
        res.violation("fresh", ["parse-empty-differs"], f"{mi.full_name}: parse(b'') differs from a fresh message", w)
    # "something was assigned inside it": assigning a value -- the type's DEFAULT value included -- to a field of a plain
    # sub-message makes the sub-message present, whether or not that field (or the whole message) was READ before; the two
    # orders must give the same bytes and the same flag (read-then-assign vs assign on a never-read object)
    for fi in mi.fields:
        if not (fi.label == "singular" and fi.kind == "message" and fi.wkt is None):
            continue
        sub_mi = b.msgs[fi.type_name]
        sub_names = attr_names(b.bp_class(sub_mi.full_name))
        for f2 in sub_mi.fields:
            if f2.label != "singular" or f2.kind in ("message",) or f2.wkt:
                continue
            dv = py_default(b, f2)
            if dv == "MESSAGE":
                continue
            for readers in ("read-leaf", "read-all-deep", "bytes", "to_dict"):
                res.counters["assign_default_after_read"] += 1
                try:
                    plain, seen = cls(), cls()
                    setattr(getattr(plain, names[fi.number]), sub_names[f2.number], dv)
                    if readers == "read-leaf":
                        getattr(getattr(seen, names[fi.number]), sub_names[f2.number])
                    elif readers == "read-all-deep":
                        _read_deep(seen, 2)
                    elif readers == "bytes":
                        bytes(seen), bytes(getattr(seen, names[fi.number]))
                    else:
                        seen.to_dict(), getattr(seen, names[fi.number]).to_dict()
                    setattr(getattr(seen, names[fi.number]), sub_names[f2.number], dv)
                    a = (bytes(plain), bool(betterproto.serialized_on_wire(getattr(plain, names[fi.number]))))
                    c = (bytes(seen), bool(betterproto.serialized_on_wire(getattr(seen, names[fi.number]))))
                except Exception as e:
                    res.violation("assigned-inside", ["default-after-read", readers, "raised:" + type(e).__name__], f"{mi.full_name}.{fi.name}.{f2.name}: {e!r}", w)
                    continue
                if a != c or not c[1]:
                    res.violation("assigned-inside", ["default-after-read", readers, f2.kind, "differs-from-assignment-without-read" if a != c else "not-present"],
                                  f"{mi.full_name}.{fi.name}.{f2.name} = {dv!r}: never read before: bytes {a[0].hex()} present={a[1]}; after {readers}: bytes {c[0].hex()} present={c[1]}", w)
            break  # one leaf per sub-message field is enough


def _read_deep(m, depth):
    import betterproto

    for nm in attr_names(type(m)).values():
        try:
            v = getattr(m, nm)
        except AttributeError:
            continue
        if isinstance(v, betterproto.Message) and depth > 0:
            _read_deep(v, depth - 1)
        elif isinstance(v, (list, dict)):
            len(v)


def run_shard(shard) -> Result:
    res = Result()
    rng = random.Random(f"c06-{shard['seed']}")
    try:
        b = corpus.build_item(shard["item"])
    except BuildError as e:
        res.inconclusive.append(f"SUT could not be built for {corpus.item_name(shard['item'])}: {e.stage}: {e.detail[-500:]}")
        return res
    try:
        monitors.install(CONTRACTS)
        bp, ref = BP(b), REF(b)
        g = Gen(b, rng, max_depth=2)
        part = shard.get("part")
        for k, mi in enumerate(b.user_messages()):
            if part and k % part[1] != part[0]:
                continue
            w = {"item": shard["item"], "msg": mi.full_name}
            monitors.set_context(w)
            res.evaluations += 1
            try:
                check_fresh(b, mi, res, w)
                check_tree(b, bp, ref, mi, {}, {}, res, w, routes=("ctor", "parse", "from_dict"))
                # single-field matrix
                cells = list(g.matrix(mi))
                if not shard["full"]:
                    rng.shuffle(cells)
                    cells = cells[:40]
                for fi, lab, tree_c in cells:
                    # the raw (non-canonical) single-field tree: re-create from the boundary so that defaults stay explicit
                    pass
                for fi in mi.fields:
                    bounds = g._bounds_for(fi) if fi.label != "map" else None
                    trees = []
                    if fi.label in ("singular", "optional", "oneof"):
                        for v in bounds:
                            trees.append(({fi.number: v}, _is_default(fi, v)))
                    elif fi.label == "repeated":
                        trees.append(({fi.number: []}, "default"))
                        trees.append(({fi.number: [bounds[0]]}, "nondefault"))
                        trees.append(({fi.number: list(bounds[:4])}, "nondefault"))
                    else:
                        trees.append(({fi.number: {}}, "default"))
                        kb = g._scalar(fi.map_key.kind, "boundary")
                        trees.append(({fi.number: {kb: g._bounds_for(fi.map_value)[0]}}, "nondefault"))
                    if not shard["full"] and len(trees) > 4:
                        trees = [t for t in trees if t[1] == "default"][:2] + rng.sample(trees, 2)
                    for t, c in trees:
                        check_tree(b, bp, ref, mi, t, {fi.number: c}, res, w)
                        if len(res.samples) < 3 and c == "default":
                            res.sample({"type": mi.full_name, "field": fi.name, "kind": fi.cls_key(), "class": c, "tree": repr(t)[:120]})
                # combinations
                if len(mi.fields) >= 2:
                    for _ in range(max(3, shard["combos"] // max(1, len(b.user_messages())))):
                        chosen = rng.sample(mi.fields, min(len(mi.fields), rng.choice([2, 3])))
                        t, cl, used_groups = {}, {}, set()
                        for fi in chosen:
                            if fi.label == "oneof":
                                if fi.group in used_groups:
                                    continue
                                used_groups.add(fi.group)
                            if fi.label in ("repeated", "map"):
                                full = g.tree(mi, 0, "maximal")
                                if fi.number in full:
                                    t[fi.number] = full[fi.number]
                                    cl[fi.number] = "nondefault"
                                continue
                            v = rng.choice(g._bounds_for(fi))
                            t[fi.number] = v
                            cl[fi.number] = _is_default(fi, v)
                        check_tree(b, bp, ref, mi, t, cl, res, w, routes=("ctor", "attr", "parse", "from_dict"))
                # whatever happened to OTHER objects of this class: a freshly constructed message is fresh again
                _use_defaults_in_place(b, ref, mi)
                check_fresh(b, mi, res, dict(w, after="in-place-use-of-lazily-created-defaults-on-other-objects"))
                res.note("fresh_after_history")
            except Exception as e:
                res.inconclusive.append(f"oracle crashed on {mi.full_name}: {type(e).__name__}: {e}\n{traceback.format_exc()[-1500:]}")
                break
        monitors.drain(res, PROP)
    finally:
        b.cleanup()
    return res


def _is_default(fi, v) -> str:
    if fi.wkt in ("timestamp", "duration"):
        return "default" if (v[1], v[2]) == (0, 0) else "nondefault"
    if (fi.wkt or "").startswith("wrapper:"):
        k = fi.wkt.split(":")[1]
        d = {"bool": False, "string": "", "bytes": b"", "float": 0.0, "double": 0.0}.get(k, 0)
        return "default" if v == d and v != NAN else "nondefault"
    if fi.kind == "message":
        return "default" if not v else "nondefault"
    return "default" if (v == default_of(fi) and v != NAN and not is_negzero(v)) else "nondefault"


def replay(w):
    res = Result()
    b = corpus.build_item(w["item"])
    try:
        monitors.install(CONTRACTS)
        mi = b.msgs[w["msg"]]
        if "tree" in w:
            tree = tree_from_json(w["tree"])
            classes = {int(k): v for k, v in w.get("classes", {}).items()}
            check_tree(b, BP(b), REF(b), mi, tree, classes, res, w, routes=(w["route"],) if w.get("route") else ROUTES)
        else:
            check_fresh(b, mi, res, w)
        monitors.drain(res, PROP)
    finally:
        b.cleanup()
    return res.violations


RULE += ' Also: an EMPTY encoding received through parse / FromString / load (until EOF, SIZE_DELIMITED, size 0) reports serialized_on_wire; assigning a default inside a plain sub-message gives the same bytes and flag with and without reading it first; presence through dump/load SIZE_DELIMITED equals presence through bytes/parse.'
