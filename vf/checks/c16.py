"""C16 Scalar codec primitives are total, canonical and mutually inverse."""
from __future__ import annotations

import io
import math
import random
import struct

from .. import spec
from ..core import Result

PROP = "C16"
LEVEL = "exploration"
RULE = ("integers: exhaustive ranges + +-64 around every 2**(7k), 2**31, 2**32, 2**63, 2**64 + seeded random 64-bit "
        "values, each driven through encode_varint/dump_varint/size_varint/decode_varint/load_varint and compared "
        "with an independent spec-level codec (itself cross-checked against google.protobuf.internal at start-up); "
        "decoder inputs: all byte strings of length <= 2 and, for lengths 3..11, every continuation-bit pattern x "
        "payload classes; scalars: per-kind boundary tables + random through generated single-field messages, "
        "compared byte-for-byte with google.protobuf. Also: +-0.0 given raw and in alternation, Python ints in float fields, NaN bit patterns from the wire, len agreement per scalar case, dump_varint into a sink that keeps the objects it is given, load_varint through BufferedReaders with tiny buffers, decode_varint at positions inside a buffer, one signal for premature end of input, a sweep of integers below -2**63 over every low-64-bit pattern. distinct = distinct integers / byte strings / (kind,value) pairs.")
ASSUMPTIONS = [
    "google.protobuf 7.x (upb) and its internal pure-python varint helpers are the reference encoders",
    "10-byte varints whose last byte carries bits beyond 2**64 are recorded, not judged (the property does not state them)",
    "ruff is replaced by an identity stand-in when the plugin formats the matrix schema",
]
ANCHORS = ['dump_varint', 'encode_varint', 'size_varint', 'load_varint', 'decode_varint', '_preprocess_single', 'Message._postprocess_single', '_pack_fmt']
FLOORS = {"quick": {"evaluations": 50000, "varint_checked": 50000, "decoder_inputs": 60000, "scalar_cases": 300},
          "thorough": {"evaluations": 2000000, "varint_checked": 2000000, "decoder_inputs": 60000, "scalar_cases": 1000}}
SHARD_TIMEOUT = {"quick": 600, "thorough": 3600}


def plan(tier: str, seed: int):
    shards = []
    hi = 1 << (16 if tier == "quick" else 21)
    lo = -(1 << (10 if tier == "quick" else 16))
    n = 8 if tier == "quick" else 16
    step = (hi - lo + n - 1) // n
    for i in range(n):
        a = lo + i * step
        b = min(hi, a + step)
        if a < b:
            shards.append({"kind": "range", "lo": a, "hi": b})
    shards.append({"kind": "bounds"})
    nr = 50000 if tier == "quick" else 5000000
    k = 2 if tier == "quick" else 16
    for i in range(k):
        shards.append({"kind": "random", "n": nr // k, "seed": seed * 1000 + i})
    shards.append({"kind": "decoder", "seed": seed})
    shards.append({"kind": "scalars", "seed": seed, "n": 40 if tier == "quick" else 2000})
    shards.append({"kind": "rejects"})
    shards.append({"kind": "streams", "seed": seed})
    shards.append({"kind": "w0"})
    return shards


def _check_int(bp, res: Result, x: int):
    """all five primitives on one in-range integer"""
    exp = spec.enc_varint(x)
    try:
        enc = bp.encode_varint(x)
    except Exception as e:
        res.violation("encode-total", ["encode_varint", _cls(x), "raised:" + type(e).__name__],
                      f"encode_varint({x}) raised {e!r}", {"kind": "int", "x": str(x)})
        return
    if enc != exp:
        res.violation("encode-canonical", ["encode_varint", _cls(x), "bytes-differ"],
                      f"encode_varint({x}) = {enc.hex()} expected {exp.hex()}", {"kind": "int", "x": str(x)})
        return
    try:
        sz = bp.size_varint(x)
    except Exception as e:
        sz = f"raised:{type(e).__name__}"
    if sz != len(exp):
        res.violation("size", ["size_varint", _cls(x), "size-differs"],
                      f"size_varint({x}) = {sz} expected {len(exp)}", {"kind": "int", "x": str(x)})
    want = x & spec.MASK64
    try:
        dv = bp.decode_varint(enc, 0)
    except Exception as e:
        dv = f"raised:{type(e).__name__}"
    if dv != (want, len(exp)):
        res.violation("decode-inverse", ["decode_varint", _cls(x), "value-or-length"],
                      f"decode_varint(encode({x})) = {dv} expected {(want, len(exp))}", {"kind": "int", "x": str(x)})
    try:
        lv = bp.load_varint(io.BytesIO(enc + b"\x7f"))
    except Exception as e:
        lv = f"raised:{type(e).__name__}"
    if lv != (want, exp):
        res.violation("decode-inverse", ["load_varint", _cls(x), "value-or-raw"],
                      f"load_varint(encode({x})+junk) = {lv} expected {(want, exp)}", {"kind": "int", "x": str(x)})
    # offset form
    try:
        dv2 = bp.decode_varint(b"\xff" + enc, 1)
    except Exception as e:
        dv2 = f"raised:{type(e).__name__}"
    if dv2 != (want, 1 + len(exp)):
        res.violation("decode-inverse", ["decode_varint", _cls(x), "offset"],
                      f"decode_varint(b'\\xff'+encode({x}),1) = {dv2}", {"kind": "int", "x": str(x)})
    res.counters["varint_checked"] += 1


def _cls(x: int) -> str:
    if x < 0:
        return "negative"
    n = spec.varint_len(x)
    return f"len{n}"


def _check_reject_low(bp, res: Result, x: int):
    for fn in ("encode_varint", "size_varint"):
        try:
            r = getattr(bp, fn)(x)
            res.violation("reject-below-min", [fn, "below-int64-min", "accepted"],
                          f"{fn}({x}) returned {r!r} instead of raising", {"kind": "low", "x": str(x)})
        except ValueError:
            res.counters["rejected_low"] += 1
        except Exception as e:
            res.counters["rejected_low_other:" + type(e).__name__] += 1
    try:
        s = io.BytesIO()
        bp.dump_varint(x, s)
        res.violation("reject-below-min", ["dump_varint", "below-int64-min", "accepted"],
                      f"dump_varint({x}) wrote {s.getvalue().hex()}", {"kind": "low", "x": str(x)})
    except Exception:
        res.counters["rejected_low"] += 1


_EOF_SIGNAL = {}


def _eof_signal(bp, name):
    if name not in _EOF_SIGNAL:
        try:
            if name == "decode_varint":
                bp.decode_varint(b"\x80\x80", 0)
            else:
                bp.load_varint(io.BytesIO(b"\x80\x80"))
            _EOF_SIGNAL[name] = None
        except EOFError:
            _EOF_SIGNAL[name] = "eof"
        except ValueError:
            _EOF_SIGNAL[name] = "valueerror"
        except Exception as e:
            _EOF_SIGNAL[name] = "exc:" + type(e).__name__
    return _EOF_SIGNAL[name]


def _check_decoder_offsets(bp, res: Result):
    """decode_varint at a position inside a buffer: results are relative to that position, and a position at the very
    end of the buffer is premature end of input like any other"""
    want = _eof_signal(bp, "decode_varint")
    from .. import spec as _spec

    prefixes = [b"\x08", b"\x08\x01\x10", b"\xff\x01", b""]
    # longer buffers: what lies BEFORE the position (and how long the buffer is in total) must not matter
    for n in (5, 8, 9, 10, 11, 15, 16, 20, 33):
        prefixes += [b"\x01" * n, (b"\xff\x01" * n)[:n - 1] + b"\x01", bytes((37 * i + 11) % 128 for i in range(n))]
    tails = [(b"\x05", 5), (b"\xac\x02", 300), (b"", None), (b"\x80", None)]
    for v in (2 ** 35 + 3, 2 ** 56 + 1, 2 ** 63, 2 ** 64 - 1):
        tails.append((_spec.enc_varint(v), v))
    for k in range(1, 10):
        tails += [(b"\x80" * k, None), (b"\xff" * k, None), (b"\xac" * k, None)]
    for prefix in prefixes:
        for tail, val in tails:
            buf = prefix + tail
            pos = len(prefix)
            res.counters["decoder_offset_inputs"] += 1
            try:
                r = bp.decode_varint(buf, pos)
                got = ("ok", r[0], r[1])
            except EOFError:
                got = ("eof",)
            except ValueError:
                got = ("valueerror",)
            except Exception as e:
                got = ("exc:" + type(e).__name__,)
            w = {"kind": "decoff", "b": buf.hex(), "pos": pos}
            if val is not None:
                if got != ("ok", val, pos + len(tail)):
                    res.violation("decode", ["decode_varint", "at-offset", "wrong-result:" + got[0]], f"decode_varint({buf.hex()}, {pos}) = {got}", w)
            elif got[0] == "ok":
                res.violation("decode-truncated", ["decode_varint", "at-offset", "accepted"], f"decode_varint({buf.hex()}, {pos}) = {got}", w)
            elif want is not None and got[0] != want:
                res.violation("decode-truncated", ["decode_varint", "position-at-end-of-buffer" if not tail else "truncated", "signalled-differently:" + got[0]],
                              f"decode_varint({buf.hex()!r}, {pos}) signals premature end of input with {got[0]}, a varint cut in the middle with {want}", w)


def _check_decoder_input(bp, res: Result, b: bytes):
    """b as decoder input at offset 0"""
    try:
        sv = spec.dec_varint(b, 0)
        kind = "ok"
    except spec.Truncated:
        kind = "truncated"
    except spec.WireError:
        kind = "toolong"
    outs = []
    for name in ("decode_varint", "load_varint"):
        try:
            if name == "decode_varint":
                r = bp.decode_varint(b, 0)
                got = ("ok", r[0], r[1])
            else:
                r = bp.load_varint(io.BytesIO(b))
                got = ("ok", r[0], len(r[1]))
                if r[1] != b[: len(r[1])]:
                    res.violation("decode-raw", [name, kind, "raw-mismatch"], f"load_varint({b.hex()}) raw={r[1].hex()}",
                                  {"kind": "dec", "b": b.hex()})
        except EOFError:
            got = ("eof",)
        except ValueError:
            got = ("valueerror",)
        except Exception as e:
            got = ("exc:" + type(e).__name__,)
        outs.append(got)
        if kind == "ok":
            v, n = sv
            if v > spec.MASK64:
                res.counters["overflow10_recorded:" + got[0]] += 1
                continue
            if got != ("ok", v, n):
                res.violation("decode", [name, f"valid-len{n}", "wrong-result:" + got[0]],
                              f"{name}({b.hex()}) = {got} expected {(v, n)}", {"kind": "dec", "b": b.hex()})
        elif kind == "truncated":
            if got[0] == "ok":
                res.violation("decode-truncated", [name, "truncated", "accepted"],
                              f"{name}({b.hex()}) returned {got} on a truncated varint", {"kind": "dec", "b": b.hex()})
            else:
                res.counters["truncated_signalled:" + got[0]] += 1
                # ONE signal for premature end of input, wherever the input ends (nothing left at all, or in the middle
                # of a varint): the class this tree raises for a varint cut after a continuation byte is the yardstick
                want = _eof_signal(bp, name)
                if want is not None and got[0] != want and len(b) < 10:  # 10 continuation bytes are "too long" just as well
                    res.violation("decode-truncated", [name, "empty-input" if not b else "truncated", "signalled-differently:" + got[0]],
                                  f"{name}({b.hex()!r}) signals premature end of input with {got[0]}, a varint cut in the middle with {want}",
                                  {"kind": "dec", "b": b.hex()})
        else:
            if got[0] == "ok":
                res.violation("decode-toolong", [name, "longer-than-10", "accepted"],
                              f"{name}({b.hex()}) returned {got} on an 11+-byte varint", {"kind": "dec", "b": b.hex()})
            else:
                res.counters["toolong_rejected:" + got[0]] += 1
    res.counters["decoder_inputs"] += 1


def _decoder_inputs(rng):
    for a in range(256):
        yield bytes([a])
    for a in range(256):
        for b in range(256):
            yield bytes([a, b])
    payloads = [0x00, 0x01, 0x7F, None]
    for ln in range(3, 12):
        for pat in range(1 << ln):
            for p in payloads:
                bs = bytearray()
                for i in range(ln):
                    pl = rng.getrandbits(7) if p is None else p
                    bs.append((0x80 if (pat >> i) & 1 else 0) | pl)
                yield bytes(bs)
    yield b""


def run_shard(shard) -> Result:
    import betterproto as bp

    res = Result()
    st = spec.self_test()
    if st:
        res.inconclusive.append("spec codec disagrees with google.protobuf.internal: " + st)
        return res
    k = shard["kind"]
    if k == "w0":
        from ..w0 import run_w0

        return run_w0(PROP, ["varint"])
    if k == "range":
        for x in range(shard["lo"], shard["hi"]):
            _check_int(bp, res, x)
        n = shard["hi"] - shard["lo"]
        res.evaluations += n
        res.distinct_extra += n
        res.sample({"range": [shard["lo"], shard["hi"]], "last": {"x": shard["hi"] - 1,
                    "encode_varint": bp.encode_varint(shard["hi"] - 1).hex()}})
    elif k == "bounds":
        seen = set()
        pts = [1 << (7 * i) for i in range(1, 10)] + [1 << 31, 1 << 32, 1 << 63, 1 << 64, 1 << 53, 1 << 56]
        for p in pts:
            for d in range(-64, 65):
                for x in (p + d, -(p + d)):
                    if -(1 << 63) <= x < (1 << 64) and x not in seen:
                        seen.add(x)
                        _check_int(bp, res, x)
                        res.evaluations += 1
        res.distinct_extra += len(seen)
        res.extra["boundary_points"] = len(seen)
    elif k == "random":
        rng = random.Random(shard["seed"])
        seen = set()
        for _ in range(shard["n"]):
            bits = rng.randint(1, 64)
            x = rng.getrandbits(bits)
            if rng.random() < 0.3:
                x = -x
                if x < -(1 << 63):
                    x = -(1 << 63)
            _check_int(bp, res, x)
            res.evaluations += 1
            seen.add(x)
        res.distinct_extra += len(seen)
        res.sample({"random_example": str(x), "encode_varint": bp.encode_varint(x).hex()})
    elif k == "rejects":
        lows = [-(1 << 63) - 1, -(1 << 63) - 2, -(1 << 64), -(1 << 64) - 1, -(1 << 70), -(10**30),
                -(1 << 64) - (1 << 63), -(1 << 64) - (1 << 63) - 1, -(1 << 100) - 1, -(1 << 65) + 1, -(1 << 127), -(1 << 128) - 1]
        rrng = random.Random("c16-rejects")
        for bits in range(64, 200, 3):
            for _ in range(4):
                lows.append(-(1 << 63) - 1 - rrng.getrandbits(bits))  # every bit pattern in the low 64 bits
        for x in lows:
            _check_reject_low(bp, res, x)
            res.case(f"low:{x}")
        # the minimum itself must be accepted
        _check_int(bp, res, -(1 << 63))
        res.case("min")
    elif k == "decoder":
        rng = random.Random(shard["seed"])
        n = 0
        for b in _decoder_inputs(rng):
            _check_decoder_input(bp, res, b)
            n += 1
        _check_decoder_input(bp, res, b"")
        _check_decoder_offsets(bp, res)
        res.evaluations += n
        res.distinct_extra += n  # patterns are distinct by construction (random payload class may repeat; counted once per pattern)
        res.sample({"decoder_input": "8080808080808080808001", "note": "11-byte varint must be rejected"})
    elif k == "scalars":
        _scalars(bp, res, shard)
    elif k == "streams":
        _streams(bp, res, shard)
    return res


class _KeepingSink:
    """a writer that keeps the very objects it is handed (a list-collecting transport / mock): what was written must
    not change afterwards"""

    def __init__(self):
        self.chunks = []

    def write(self, b):
        self.chunks.append(b)
        return len(b)

    def value(self) -> bytes:
        return b"".join(bytes(c) for c in self.chunks)


def _streams(bp, res: Result, shard):
    """dump_varint / load_varint as STREAM primitives: several values through one stream, sinks that keep what they
    are given, readers that buffer (a varint may straddle a refill boundary)"""
    rng = random.Random(f"c16-streams-{shard['seed']}")
    for rep in range(40):
        vals = [rng.choice([0, 1, 127, 128, 300, 2**31, 2**32 - 1, 2**63 - 1, 2**64 - 1, -1, -(2**63), rng.getrandbits(rng.randint(1, 64))])
                for _ in range(rng.randint(2, 40))]
        exp = b"".join(spec.enc_varint(v) for v in vals)
        w = {"kind": "streams", "seed": shard["seed"]}
        for sink_name, sink in (("BytesIO", io.BytesIO()), ("keeping-sink", _KeepingSink())):
            res.counters["stream_writes"] += len(vals)
            try:
                for v in vals:
                    bp.dump_varint(v, sink)
                got = sink.getvalue() if sink_name == "BytesIO" else sink.value()
            except Exception as e:
                res.violation("encode-total", ["dump_varint", sink_name, "raised:" + type(e).__name__], f"dump_varint sequence {vals[:6]}..: {e!r}", w)
                continue
            if got != exp:
                res.violation("encode-canonical", ["dump_varint", sink_name, "stream-content-differs"],
                              f"dump_varint of {vals[:8]}.. into a {sink_name}: {got.hex()[:80]} expected {exp.hex()[:80]}", w)
        want = [(v & spec.MASK64) for v in vals]
        pad = bytes(rng.randint(0, 3))  # zero bytes = the varint 0: shifts where the refill boundaries fall
        data = pad + exp
        for rname, mk in (("BytesIO", lambda: io.BytesIO(data)),
                          ("BufferedReader-8", lambda: io.BufferedReader(io.BytesIO(data), buffer_size=8)),
                          ("BufferedReader-13", lambda: io.BufferedReader(io.BytesIO(data), buffer_size=13)),
                          ("BufferedReader-64", lambda: io.BufferedReader(io.BytesIO(data), buffer_size=64))):
            res.counters["stream_reads"] += len(vals)
            try:
                st = mk()
                got = [bp.load_varint(st)[0] for _ in range(len(pad) + len(vals))][len(pad):]
                rest = st.read()
            except Exception as e:
                res.violation("decode", ["load_varint", rname, "raised:" + type(e).__name__],
                              f"load_varint over a healthy stream of {len(vals)} varints ({rname}): {e!r}", w)
                continue
            if got != want or rest != b"":
                res.violation("decode", ["load_varint", rname, "values-or-position-differ"],
                              f"load_varint over {rname}: {got[:6]} expected {want[:6]}, {len(rest)} bytes left", w)
        res.case(f"streams:{rep}:{len(vals)}")


def _scalars(bp, res: Result, shard):
    from .. import corpus
    from ..values import BP, REF, scalar_bounds, rand_scalar, norm_leaf, NAN

    rng = random.Random(shard["seed"])
    b = corpus.build_item({"kind": "matrix"})
    try:
        bpk, refk = BP(b), REF(b)
        for mname, label in ((".vf.matrix.Scalars", "singular"), (".vf.matrix.Optionals", "optional"),
                             (".vf.matrix.Repeateds", "repeated")):
            mi = b.msgs[mname]
            for fi in mi.fields:
                if fi.kind in ("message", "enum"):
                    continue
                vals = [norm_leaf(fi.kind, v) for v in scalar_bounds(fi.kind)]
                vals += [norm_leaf(fi.kind, rand_scalar(rng, fi.kind)) for _ in range(shard["n"])]
                if fi.kind in ("float", "double"):
                    _float_specials(b, bpk, refk, mi, fi, label, res, mname, shard)
                    # +0.0 first, then -0.0 (equal and equally hashed, other bytes), then +0.0 again -- given raw, the
                    # value normaliser of the other checks folds the two zeros together
                    vals = [0.0, -0.0, 0.0, -0.0] + vals
                for vi, v in enumerate(vals):
                    negzero = isinstance(v, float) and v == 0 and math.copysign(1.0, v) < 0
                    tree = {fi.number: [v, v] if label == "repeated" else v}
                    if label == "singular" and not negzero:
                        from ..values import canon
                        tree = canon(b, mi, tree)
                    ref = refk.make(mi, tree).SerializeToString()
                    try:
                        m = bpk.make(mi, tree)
                        got = bytes(m)
                    except Exception as e:
                        res.counters["scalar_cases"] += 1
                        res.violation("scalar-bytes", [fi.kind, label, "encode-raised:" + type(e).__name__],
                                      f"{fi.kind} {label} value {v!r}: encoding raised {e!r}; reference {ref.hex()}",
                                      {"kind": "scalar", "msg": mname, "number": fi.number, "label": label, "value": _enc(v),
                                       "shard": {"kind": "scalars", "seed": shard["seed"], "n": shard["n"]}})
                        continue
                    # independent expectation from the spec codec
                    pv = float("nan") if v == NAN else v
                    if label == "repeated":
                        if fi.kind in spec.PACKABLE:
                            body = spec.enc_scalar_payload(fi.kind, pv) * 2
                            exp = spec.enc_tag(fi.number, 2) + spec.enc_varint(len(body)) + body
                        else:
                            exp = spec.enc_scalar_field(fi.number, fi.kind, pv) * 2
                    elif not tree:
                        exp = b""
                    else:
                        exp = spec.enc_scalar_field(fi.number, fi.kind, pv)
                    res.counters["scalar_cases"] += 1
                    res.case(f"{fi.kind}/{label}/{v!r}")
                    try:
                        if len(m) != len(got):
                            res.violation("scalar-bytes", [fi.kind, label, "len-differs-from-encoding"], f"{fi.kind} {label} value {v!r}: len(m)={len(m)} len(bytes(m))={len(got)}",
                                          {"kind": "scalar", "msg": mname, "number": fi.number, "label": label, "value": _enc(v),
                                           "shard": {"kind": "scalars", "seed": shard["seed"], "n": shard["n"]}})
                    except Exception as e:
                        res.violation("scalar-bytes", [fi.kind, label, "len-raised:" + type(e).__name__], f"{fi.kind} {label} value {v!r}: {e!r}",
                                      {"kind": "scalar", "msg": mname, "number": fi.number, "label": label, "value": _enc(v),
                                       "shard": {"kind": "scalars", "seed": shard["seed"], "n": shard["n"]}})
                    if got != ref or got != exp:
                        # NaN payload bits may legitimately differ only if python changes them; compare exactly anyway
                        res.violation("scalar-bytes", [fi.kind, label, "negative-zero-omitted" if (negzero and got == b"") else ("negative-zero" if negzero else "bytes-differ")],
                                      f"{fi.kind} {label} value {v!r}: betterproto {got.hex()} reference {ref.hex()} spec {exp.hex()}",
                                      {"kind": "scalar", "msg": mname, "number": fi.number, "label": label,
                                       "value": _enc(v), "shard": {"kind": "scalars", "seed": shard["seed"], "n": shard["n"]}})
                if res.samples == [] or len(res.samples) < 3:
                    res.sample({"kind": fi.kind, "label": label, "value": repr(vals[-1]), "bytes": got.hex()})
    finally:
        b.cleanup()


def _float_specials(b, bpk, refk, mi, fi, label, res: Result, mname, shard):
    """(a) Python ints / bools given to a float or double field encode like the equal float (the reference accepts them
    too); (b) NaNs arriving from the wire with a sign bit or a payload keep their bits through decode -> encode"""
    from ..values import attr_names

    cls = b.bp_class(mi.full_name)
    rcls = b.ref_class(mi.full_name)
    nm = attr_names(cls)[fi.number]
    wsh = {"kind": "scalar", "msg": mname, "number": fi.number, "label": label, "value": {"$f": "0x0.0p+0"},
           "shard": {"kind": "scalars", "seed": shard["seed"], "n": shard["n"]}}
    for iv in (3, -1, 2**24, True, 10**15):
        if fi.kind == "float" and isinstance(iv, int) and abs(iv) > 2**24:
            continue
        val = [iv, iv] if label == "repeated" else iv
        res.counters["scalar_cases"] += 1
        try:
            got = bytes(cls(**{nm: val}))
            r = rcls()
            if label == "repeated":
                getattr(r, fi.name).extend([float(iv), float(iv)])
            else:
                setattr(r, fi.name, float(iv))
            ref = r.SerializeToString()
        except Exception as e:
            res.violation("scalar-bytes", [fi.kind, label, "int-valued-float:raised:" + type(e).__name__], f"{fi.kind} {label} = {iv!r}: {e!r}", wsh)
            continue
        if got != ref:
            res.violation("scalar-bytes", [fi.kind, label, "int-valued-float:bytes-differ"],
                          f"{fi.kind} {label} field given the Python {type(iv).__name__} {iv!r}: betterproto {got.hex()} reference (for {float(iv)!r}) {ref.hex()}", wsh)
    pats = ([0xFFC00000, 0x7FC00001, 0xFFC12345] if fi.kind == "float" else [0xFFF8000000000000, 0x7FF8000000000001, 0xFFF80000DEADBEEF])
    width = 4 if fi.kind == "float" else 8
    for pat in pats:
        payload = pat.to_bytes(width, "little")
        if label == "repeated":
            data = spec.enc_tag(fi.number, 2) + spec.enc_varint(2 * width) + payload * 2
        else:
            data = spec.enc_tag(fi.number, 5 if width == 4 else 1) + payload
        res.counters["scalar_cases"] += 1
        try:
            again = bytes(cls().parse(data))
            ref_again = rcls.FromString(data).SerializeToString()
        except Exception as e:
            res.violation("scalar-bytes", [fi.kind, label, "nan-bits:raised:" + type(e).__name__], f"{fi.kind} {label} NaN {pat:#x}: {e!r}", wsh)
            continue
        if again != data and ref_again == data:
            res.violation("scalar-bytes", [fi.kind, label, "nan-bits-changed"],
                          f"{fi.kind} {label}: NaN bits {pat:#x} decoded and encoded again give {again.hex()} (reference keeps {data.hex()})", wsh)


def _enc(v):
    from ..values import tree_to_json

    return tree_to_json(v)


def replay(w):
    import betterproto as bp

    res = Result()
    if w["kind"] == "w0":
        from ..w0 import run_w0

        return run_w0(PROP, ["varint"]).violations
    if w["kind"] == "int":
        _check_int(bp, res, int(w["x"]))
    elif w["kind"] == "low":
        _check_reject_low(bp, res, int(w["x"]))
    elif w["kind"] == "dec":
        _check_decoder_input(bp, res, bytes.fromhex(w["b"]))
    elif w["kind"] == "streams":
        _streams(bp, res, {"seed": w["seed"]})
    elif w["kind"] == "decoff":
        _check_decoder_offsets(bp, res)
    elif w["kind"] == "scalar" and w.get("shard"):
        # the encoders may carry state from one call to the next: the whole sequence of the shard is replayed
        _scalars(bp, res, w["shard"])
    elif w["kind"] == "scalar":
        from .. import corpus
        from ..values import BP, REF, tree_from_json, canon, NAN

        b = corpus.build_item({"kind": "matrix"})
        try:
            mi = b.msgs[w["msg"]]
            fi = mi.field(w["number"])
            v = tree_from_json(w["value"])
            if isinstance(v, float) and v != v:
                v = NAN
            negzero = isinstance(v, float) and v == 0 and math.copysign(1.0, v) < 0
            tree = {fi.number: [v, v] if w["label"] == "repeated" else v}
            if w["label"] == "singular" and not negzero:
                tree = canon(b, mi, tree)
            bpk = BP(b)
            if negzero:
                bytes(bpk.make(mi, {fi.number: [0.0] if w["label"] == "repeated" else 0.0}))  # +0.0 goes first, as in the run
            got = bytes(bpk.make(mi, tree))
            ref = REF(b).make(mi, tree).SerializeToString()
            if got != ref:
                res.violation("scalar-bytes", [fi.kind, w["label"], "negative-zero-omitted" if (negzero and got == b"") else ("negative-zero" if negzero else "bytes-differ")],
                              f"{got.hex()} vs {ref.hex()}", w)
        finally:
            b.cleanup()
    return res.violations


RULE += ' decode_varint at positions inside buffers of up to 33 bytes with truncated tails of 0..9 continuation bytes and complete varints of 5..10 bytes.'
