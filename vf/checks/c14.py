"""C14 Observers are pure; copy, deepcopy and pickle are faithful and independent."""
from __future__ import annotations

import copy
import pickle
import random
import traceback

from .. import spec
from ..core import Result
from ..values import hints_of
from ..valuework import plan_items, replay_value, run_value_shard
from ..values import attr_names, diff_signature, diff_trees
from ..wiregen import WireGen
from .c06 import to_pydict

PROP = "C14"
LEVEL = "exploration"
RULE = ("twin differential: a construction recipe (constructor kwargs / in-place fill / parse of reference bytes, also with "
        "unknown records and received-empty sub-messages / from_dict) is executed twice; a seeded sequence of 0..8 "
        "observers (read every field, read lazily defaulted nested fields to depth 2, bytes, len, ==, bool, repr, to_dict "
        "in both casings with and without defaults, to_json, to_pydict) runs on one twin only; then bytes, ==, and the "
        "neutral tree (oneof selection, None-ness, nested presence) of both twins are compared. Then copy / deepcopy / "
        "pickle round trip of the observed twin: the copy must == the original and encode to identical bytes; containers "
        "and sub-messages of a deep / unpickled copy are mutated and the original must still encode as before. More data is also DECODED into each copy (original must be unchanged). A directed shard covers google.protobuf.Struct / Value / ListValue (hand-written observers in the bundled library; constructor / parse recipes only). A failing "
        "sequence is reduced to the single observers that reproduce it. distinct = distinct (type, tree, recipe, observer sequence).")
ASSUMPTIONS = [
    "an observer that raises is counted, not judged (C14 is about state, not totality)",
    "twins are built from the same recipe by the deterministic SUT; the untouched twin is only read at the very end",
    "ruff is replaced by an identity stand-in when the plugin formats its output",
]
FLOORS = {"quick": {"histories": 3000, "copies_checked": 6000}, "thorough": {"histories": 120000, "copies_checked": 250000}}
ANCHORS = ['Message.__copy__', 'Message.__deepcopy__', 'Message.__reduce__', 'Message.to_pydict', 'Message.to_dict', 'Message.__getattribute__']
CONTRACTS = []
RECIPES = ("ctor", "inplace", "parse", "parse-unknown", "from_dict", "ctor-then-none")


# google.protobuf.Struct / Value / ListValue have hand-written to_dict / from_dict in the bundled library: observers of
# such messages must be pure as well.  Their JSON decoding is outside the corpus grammar (DESIGN 3.3), so these
# messages are only built by constructor / parse, never through from_dict.
STRUCT_ITEM = {"kind": "literal", "recipes": ["ctor", "parse", "parse-unknown"], "protos": {"vf_struct.proto": (
    'syntax = "proto3";\npackage vf.structs;\nimport "google/protobuf/struct.proto";\n'
    "message M { google.protobuf.Struct s = 1; google.protobuf.Value v = 2; google.protobuf.ListValue l = 3; int32 x = 4;\n"
    "  repeated google.protobuf.Struct rs = 5; map<string, google.protobuf.Value> mv = 6; }\n")}}


def plan(tier, seed):
    shards = plan_items(tier, seed, n_gen_quick=8, n_gen_thorough=200, n_quick=70, n_thorough=500)
    shards.append({"item": STRUCT_ITEM, "seed": seed * 7919 + 999, "n": 40 if tier == "quick" else 400, "matrix": "sample",
                   "time_cap": 40 if tier == "quick" else 100})
    return shards


def observers(b, mi, peer=None):
    import betterproto

    C, S = betterproto.Casing.CAMEL, betterproto.Casing.SNAKE

    def read_all(m):
        for nm in attr_names(type(m)).values():
            try:
                getattr(m, nm)
            except AttributeError:
                pass

    def read_deep(m, depth=2):
        for nm in attr_names(type(m)).values():
            try:
                v = getattr(m, nm)
            except AttributeError:
                continue
            if isinstance(v, betterproto.Message) and depth > 0:
                read_deep(v, depth - 1)
            elif isinstance(v, list):
                for x in v[:3]:
                    if isinstance(x, betterproto.Message) and depth > 0:
                        read_deep(x, depth - 1)
            elif isinstance(v, dict):
                for x in list(v.values())[:3]:
                    if isinstance(x, betterproto.Message) and depth > 0:
                        read_deep(x, depth - 1)

    return {
        "read-fields": read_all,
        "read-nested-defaults": read_deep,
        "bytes": lambda m: bytes(m),
        "len": lambda m: len(m),
        "eq-self": lambda m: m == m,
        "eq-fresh": lambda m: m == type(m)(),
        # comparison with a DIFFERENT message of the same type (other oneof members selected, other fields set)
        "eq-other": (lambda m: (m == peer, peer == m)) if peer is not None else (lambda m: m == type(m)()),
        "bool": lambda m: bool(m),
        "repr": lambda m: repr(m),
        "to_dict-camel": lambda m: m.to_dict(casing=C),
        "to_dict-snake-defaults": lambda m: m.to_dict(casing=S, include_default_values=True),
        "to_json": lambda m: m.to_json(),
        "to_json-defaults": lambda m: m.to_json(include_default_values=True),
        "to_pydict": lambda m: m.to_pydict(),
        "to_pydict-defaults": lambda m: m.to_pydict(casing=S, include_default_values=True),
        "which_one_of": lambda m: [betterproto.which_one_of(m, g) for g in mi.oneofs],
        "is_set": lambda m: [m.is_set(nm) for nm in attr_names(type(m)).values()],
        # making a copy is an observation of the original as well
        "copy.copy": lambda m: copy.copy(m),
        "copy.deepcopy": lambda m: copy.deepcopy(m),
        "pickle": lambda m: pickle.loads(pickle.dumps(m)),
    }


def build(b, bp, ref, mi, tree, recipe, unk: bytes):
    cls = b.bp_class(mi.full_name)
    if recipe in ("ctor", "inplace"):
        return bp.make(mi, tree, recipe)
    if recipe == "ctor-then-none":
        # every proto3-optional field is cleared again by ASSIGNING None after construction (not the same internal state as
        # never having passed it: the assignment goes through the oneof-like bookkeeping of optional fields)
        m = bp.make(mi, tree, "ctor")
        names = attr_names(cls)
        for fi in mi.fields:
            if fi.label == "optional":
                setattr(m, names[fi.number], None)
        return m
    if recipe == "parse":
        return cls().parse(ref.make(mi, tree).SerializeToString())
    if recipe == "parse-unknown":
        return cls().parse(ref.make(mi, tree).SerializeToString() + unk)
    if recipe == "from_dict":
        return cls().from_dict(to_pydict(b, mi, tree))
    raise KeyError(recipe)


def snapshot(b, bp, mi, m):
    """(bytes, tree) read through the public API -- only ever called on a message at the end"""
    data = bytes(m)
    return data, bp.norm(mi, m)


def run_observers(obs, seq, m, res):
    for name in seq:
        try:
            obs[name](m)
        except Exception as e:
            res.note(f"observer-raised:{name}:{type(e).__name__}")


def check_case(b, bp, ref, mi, tree, res: Result, w, rng):
    from ..values import Gen

    try:
        peer = bp.make(mi, Gen(b, __import__("random").Random(hash(repr(sorted(tree))) & 0xFFFF), max_depth=2).tree(mi, 0, "maximal"), "ctor")
    except Exception:
        peer = None
    obs = observers(b, mi, peer)
    names = sorted(obs)
    wg = WireGen(b, rng)
    known = {f.number for f in mi.fields}
    recipes = [w["recipe"]] if w.get("recipe") else (w.get("item", {}).get("recipes") or RECIPES)
    for recipe in recipes:
        unk = bytes.fromhex(w["unk"]) if w.get("unk") else (wg.unknown_record(known) if recipe == "parse-unknown" else b"")
        seq = w["seq"] if w.get("seq") is not None else [rng.choice(names) for _ in range(rng.randint(0, 8))]
        ww = dict(w, recipe=recipe, seq=seq, unk=unk.hex())
        try:
            a = build(b, bp, ref, mi, tree, recipe, unk)
            twin = build(b, bp, ref, mi, tree, recipe, unk)
        except Exception as e:
            res.note("recipe-unbuildable:" + recipe)  # other properties' territory
            continue
        res.note("histories")
        res.distinct.add(f"{mi.full_name}|{recipe}|{','.join(seq)}|{hash(repr(tree))}")
        run_observers(obs, seq, a, res)
        # ---- copies: each on its own freshly built + observed message, so that one copy operation
        # cannot contaminate the judgement of another (or of the purity comparison below)
        for op in ([w["op"]] if w.get("op") else ("copy", "deepcopy", "pickle")):
            try:
                a2 = build(b, bp, ref, mi, tree, recipe, unk)
                run_observers(obs, seq, a2, res)
                c = {"copy": copy.copy, "deepcopy": copy.deepcopy, "pickle": lambda x: pickle.loads(pickle.dumps(x))}[op](a2)
            except Exception as e:
                res.violation("copy-raises", [op, recipe, _seq_class(seq), "raised:" + type(e).__name__],
                              f"{mi.full_name}: {op} after {seq} raised {e!r}", dict(ww, op=op))
                continue
            res.note("copies_checked")
            try:
                eq = (c == a2)
                cb, ab = bytes(c), bytes(a2)
            except Exception as e:
                res.violation("copy-unusable", [op, recipe, _seq_class(seq), "raised:" + type(e).__name__],
                              f"{mi.full_name}: {op} after {seq}: result unusable: {e!r}", dict(ww, op=op))
                continue
            if not eq or cb != ab:
                ct, at = bp.norm(mi, c), bp.norm(mi, a2)
                ds = diff_trees(b, mi, at, ct)
                what = "unequal" if not eq else "bytes-differ"
                if ds:
                    for d in ds[:3]:
                        res.violation("copy-unfaithful", [op, recipe, what] + diff_signature(b, d),
                                      f"{mi.full_name}: {op} of a {recipe}-built message after {seq}: {d.short()}", dict(ww, op=op))
                else:
                    unk_lost = _unknown_part(known, ab) != _unknown_part(known, cb)
                    res.violation("copy-unfaithful", [op, recipe, what, "unknown-fields" if unk_lost else "no-tree-diff"],
                                  f"{mi.full_name}: {op} after {seq}: original {ab.hex()[:160]} copy {cb.hex()[:160]}", dict(ww, op=op))
            # independence of deep copies
            if op in ("deepcopy", "pickle"):
                before = bytes(a2)
                mutated = _mutate(c)
                after = bytes(a2)
                if mutated and after != before:
                    res.violation("copy-not-independent", [op, recipe, mutated],
                                  f"{mi.full_name}: mutating ({mutated}) the {op} changed the original: {before.hex()[:120]} -> {after.hex()[:120]}", dict(ww, op=op))
                # a second copy after the ORIGINAL has grown through its containers / descendants must show the growth
                try:
                    from ..values import grow_in_place

                    if grow_in_place(b, a2, mi):
                        c2 = {"deepcopy": copy.deepcopy, "pickle": lambda x: pickle.loads(pickle.dumps(x))}[op](a2)
                        res.note("copies_after_growth")
                        if bytes(c2) != bytes(a2):
                            res.violation("copy-unfaithful", [op, recipe, "second-copy-after-in-place-growth", "stale"],
                                          f"{mi.full_name}: {op} taken again after the original grew in place: original {bytes(a2).hex()[:120]} copy {bytes(c2).hex()[:120]}",
                                          dict(ww, op=op))
                except Exception as e:
                    res.note("copy-after-growth-raised:" + type(e).__name__)
                # decoding more data into the copy (known + unknown records) is a mutation of the copy only
                try:
                    more = wg.unknown_record(known) + (ab[: 0] if not ab else b"") + wg.unknown_record(known)
                    before = bytes(a2)
                    c.parse(more)
                    if bytes(a2) != before:
                        res.violation("copy-not-independent", [op, recipe, "parse-more-into-copy"],
                                      f"{mi.full_name}: decoding {more.hex()} into the {op} changed the original: {before.hex()[:120]} -> {bytes(a2).hex()[:120]}", dict(ww, op=op))
                    res.note("copies_parse_more")
                except Exception as e:
                    res.note("copy-parse-more-raised:" + type(e).__name__)
        # ---- purity: observed twin vs untouched twin
        try:
            sa = snapshot(b, bp, mi, a)
            sb = snapshot(b, bp, mi, twin)
            eq = (a == twin)
        except Exception as e:
            culprit = _culprits(b, bp, ref, mi, tree, recipe, unk, seq, obs, res)
            for cu in culprit:
                res.violation("observer-breaks-message", [cu, recipe, "raised:" + type(e).__name__],
                              f"{mi.full_name}: after observers {seq} the message cannot be encoded/read: {e!r}", ww)
            continue
        if sa[0] != sb[0] or sa[1] != sb[1] or not eq:
            culprit = _culprits(b, bp, ref, mi, tree, recipe, unk, seq, obs, res)
            ds = diff_trees(b, mi, sb[1], sa[1])
            what = "bytes" if sa[0] != sb[0] else ("tree" if sa[1] != sb[1] else "eq")
            for cu in culprit:
                sig = [cu, recipe, what] + (diff_signature(b, ds[0]) if ds else ["no-tree-diff"])
                res.violation("observer-impure", sig,
                              f"{mi.full_name}: observers {seq} changed the message: untouched twin {sb[0].hex()[:120]} observed {sa[0].hex()[:120]} {ds[0].short() if ds else ''}", ww)


def _unknown_part(known, data: bytes):
    try:
        return [r.raw for r in spec.read_records(data) if r.number not in known]
    except spec.WireError:
        return None


def _culprits(b, bp, ref, mi, tree, recipe, unk, seq, obs, res):
    """single observers that alone reproduce a difference between twins"""
    out = []
    for name in dict.fromkeys(seq):
        try:
            a = build(b, bp, ref, mi, tree, recipe, unk)
            t = build(b, bp, ref, mi, tree, recipe, unk)
            run_observers(obs, [name], a, res)
            if bytes(a) != bytes(t) or bp.norm(mi, a) != bp.norm(mi, t) or not (a == t):
                out.append(name)
        except Exception:
            out.append(name)
    if out:
        return out
    uniq = list(dict.fromkeys(seq))
    for i, x in enumerate(uniq):
        for y in uniq:
            if x == y:
                continue
            try:
                a = build(b, bp, ref, mi, tree, recipe, unk)
                t = build(b, bp, ref, mi, tree, recipe, unk)
                run_observers(obs, [x, y], a, res)
                if bytes(a) != bytes(t) or bp.norm(mi, a) != bp.norm(mi, t) or not (a == t):
                    out.append(f"{x}>{y}")
            except Exception:
                out.append(f"{x}>{y}")
    return out[:3] or ["sequence"]


def _seq_class(seq) -> str:
    """coarse class of an observer sequence for signatures of copy failures"""
    if any(x.endswith("-defaults") for x in seq):
        return "after-include_default_values"
    return "after-observers" if seq else "no-observers"


def _poke(msg, depth=0) -> bool:
    """change something inside a message in place; returns whether anything was changed"""
    import betterproto

    for sn in attr_names(type(msg)).values():
        try:
            sv = getattr(msg, sn)
        except AttributeError:
            continue
        if sv is None:
            continue
        if isinstance(sv, bool):
            setattr(msg, sn, not sv)
            return True
        if isinstance(sv, int):
            setattr(msg, sn, type(sv).try_value(1 if int(sv) != 1 else 0) if isinstance(sv, betterproto.Enum) else (sv + 1 if sv < 100 else 0))
            return True
        if isinstance(sv, str):
            setattr(msg, sn, sv + "!")
            return True
        if isinstance(sv, bytes):
            setattr(msg, sn, sv + b"!")
            return True
        if isinstance(sv, float):
            setattr(msg, sn, 1.0 if sv != 1.0 else 2.0)
            return True
    if depth < 2:
        for sn in attr_names(type(msg)).values():
            try:
                sv = getattr(msg, sn)
            except AttributeError:
                continue
            if isinstance(sv, betterproto.Message) and _poke(sv, depth + 1):
                return True
            if isinstance(sv, list) and sv and isinstance(sv[0], betterproto.Message) and _poke(sv[0], depth + 1):
                return True
    return False


def _mutate(c) -> str:
    """mutate containers / sub-messages of a copy in place (existing elements included); returns what was mutated"""
    import betterproto

    done = []
    # select another member in every oneof group of the copy (or one, if none is selected)
    from ..monitors import _groups

    for g, members in _groups(type(c)).items():
        try:
            cur, _ = betterproto.which_one_of(c, g)
        except Exception:
            continue
        for nm in members:
            if nm == cur:
                continue
            hint = None
            try:
                hint = hints_of(type(c)).get(nm)
            except Exception:
                pass
            val = {int: 3, str: "sw", bool: True, float: 1.5, bytes: b"sw"}.get(hint)
            if val is None:
                continue
            try:
                setattr(c, nm, val)
                done.append("oneof-switch")
                break
            except Exception:
                continue
    for nm in attr_names(type(c)).values():
        try:
            v = getattr(c, nm)
        except AttributeError:
            continue
        if isinstance(v, list) and v:
            if isinstance(v[0], betterproto.Message) and _poke(v[0]):
                done.append("list-element-message")
            v.append(v[0])
            v.reverse()
            done.append("list")
        elif isinstance(v, dict) and v:
            k = next(iter(v))
            if isinstance(v[k], betterproto.Message) and _poke(v[k]):
                done.append("map-value-message")
            else:
                v.pop(k)
                done.append("map")
        elif isinstance(v, betterproto.Message):
            if _poke(v):
                done.append("sub-message")
    return "+".join(sorted(set(done)))


def run_shard(shard):
    return run_value_shard(shard, PROP, check_case, CONTRACTS)


def replay(w):
    return replay_value(w, check_case, PROP, CONTRACTS)


RULE += " Recipes include ctor-then-none (optional fields cleared by assigning None after construction); 'large' shards (deep copies of containers with up to 2100 elements / 257 entries)."
