"""C10 Delimited streams read back intact; truncation never yields a partial message."""
from __future__ import annotations

import io
import random
import traceback

from .. import corpus, monitors, spec
from ..build import Build, BuildError
from ..core import Result
from ..values import BP, REF, Gen, diff_trees, tree_from_json, tree_to_json
from ..wiregen import WireGen
from .c08 import _pair

PROP = "C10"
LEVEL = "exploration"
RULE = ("sequences of 1..6 messages of mixed types of one schema (random / empty / maximal values, and messages carrying "
        "unknown fields) are written with dump(stream, SIZE_DELIMITED); monitors: (1) the stream equals spec-varint(len)+"
        "bytes per frame and google.protobuf's parse_length_prefixed reads every frame to the same tree; (2) successive "
        "load(stream, SIZE_DELIMITED) calls return the written sequence and stream.tell() after call i is the i-th frame "
        "boundary computed by the spec codec; (3) the same with a reader whose schema is older (fields deleted); (4) for "
        "EVERY cut point 0..len(stream) each load either raises or returns the i-th written message. "
        "'big' shards: frames of 0..20000 bytes (sizes around 127/128, 1023/1024, 8191/8192, 16383/16384) of hand-written message types, read back through eight kinds of stream objects and cut inside the length prefix, at / next to top-level record boundaries and at random positions. Writer objects are partly reused (measured, grown in place, written again); frames may hold records of known numbers with non-fitting wire types; a directed stream holds the bundled well-known messages and messages alternating between +0.0 and -0.0. distinct = distinct (stream bytes, cut) executions; a one-message stream with no cut is the trivial case.")
ASSUMPTIONS = [
    "frame boundaries come from the independent spec-level codec; reference framing = google.protobuf.proto.serialize_length_prefixed",
    "streams are io.BytesIO in the generated workloads; the 'big' shards read the same stream back through real files (default, unbuffered and 16-byte buffers), BufferedReaders with 1- and 7-byte buffers, a BufferedReader over a raw stream that returns short reads, and gzip; a load that raises ends the reading of that stream",
    "ruff is replaced by an identity stand-in when the plugin formats its output",
]
FLOORS = {"quick": {"streams": 150, "cut_executions": 15000}, "thorough": {"streams": 6000, "cut_executions": 600000}}
ANCHORS = ['Message.load', 'Message.dump', 'load_fields', 'load_varint', 'dump_varint']
CONTRACTS = ["bytes"]


def plan(tier, seed):
    items = corpus.value_items(tier, seed, 6 if tier == "quick" else 60, with_inputs=False)
    n = 24 if tier == "quick" else 120
    shards = []
    for i, it in enumerate(items):
        reps = 4 if it["kind"] == "matrix" else 1
        for r in range(reps):
            shards.append({"kind": "same", "item": it, "seed": seed * 9176 + i * 13 + r, "n": n, "time_cap": 30 if tier == "quick" else 600})
    for i in range(6 if tier == "quick" else 60):
        shards.append({"kind": "older", "pair": seed * 50021 + i, "seed": seed * 77 + i, "n": n, "time_cap": 30 if tier == "quick" else 600})
    shards.append({"kind": "directed", "seed": seed})
    for i in range(2 if tier == "quick" else 8):
        shards.append({"kind": "big", "seed": seed * 131 + i, "reps": 1 if tier == "quick" else 3})
    return shards


def run_directed(shard) -> Result:
    """streams of (a) the bundled well-known message classes as top-level frames, (b) matrix messages whose wrapper /
    float fields alternate between +0.0 and -0.0 (equal values with different encodings, frame after frame), written by
    betterproto and read back by betterproto and by the reference's length-prefixed reader"""
    import betterproto
    import betterproto.lib.google.protobuf as g
    from google.protobuf import proto as gproto
    from google.protobuf import struct_pb2, wrappers_pb2, any_pb2, field_mask_pb2, empty_pb2

    res = Result()
    w = {"kind": "directed"}
    frames = [
        (g.Struct(fields={"a": g.Value(number_value=1.5), "b": g.Value(string_value="x"), "c": g.Value(bool_value=True)}), struct_pb2.Struct),
        (g.DoubleValue(value=0.0), wrappers_pb2.DoubleValue), (g.DoubleValue(value=-0.0), wrappers_pb2.DoubleValue),
        (g.DoubleValue(value=0.0), wrappers_pb2.DoubleValue), (g.FloatValue(value=-0.0), wrappers_pb2.FloatValue),
        (g.FloatValue(value=0.0), wrappers_pb2.FloatValue), (g.Struct(), struct_pb2.Struct),
        (g.ListValue(values=[g.Value(number_value=1), g.Value(string_value="s")]), struct_pb2.ListValue),
        (g.Any(type_url="t/x", value=b"abc"), any_pb2.Any), (g.FieldMask(paths=["a", "b.c"]), field_mask_pb2.FieldMask),
        (g.Empty(), empty_pb2.Empty), (g.Int64Value(value=-1), wrappers_pb2.Int64Value),
        (g.Struct(fields={"k" + str(i): g.Value(number_value=i) for i in range(12)}), struct_pb2.Struct),
    ]
    # generated messages whose wrapper-typed / float FIELDS alternate between the two zeros
    mb = corpus.build_item({"kind": "matrix"})
    try:
        from ..values import attr_names as _an

        Wkt = mb.bp_class(".vf.matrix.Wkt")
        Sc = mb.bp_class(".vf.matrix.Scalars")
        Rp = mb.bp_class(".vf.matrix.Repeateds")
        rW, rS, rR = (mb.ref_class(".vf.matrix." + n) for n in ("Wkt", "Scalars", "Repeateds"))
        for z in (0.0, -0.0, 0.0, -0.0, 1.5, -0.0):
            frames.append((Wkt(w_double=z, w_float=-z if z == 0 else z), rW))
            frames.append((Sc(f_double=z, f_float=z), rS))
            frames.append((Rp(r_double=[z, -z if z == 0 else 2.5], r_float=[z]), rR))
    except Exception:
        mb.cleanup()
        raise
    try:
        return _directed_stream(frames, res, w)
    finally:
        mb.cleanup()


def _directed_stream(frames, res: Result, w) -> Result:
    import betterproto
    from google.protobuf import proto as gproto

    s = io.BytesIO()
    datas = []
    for m, _ in frames:
        m.dump(s, betterproto.SIZE_DELIMITED)
        datas.append(bytes(m))
    stream = s.getvalue()
    exp = b"".join(spec.enc_varint(len(d)) + d for d in datas)
    res.evaluations += 1
    res.note("streams")
    res.note("directed_wellknown_frames", len(frames))
    if stream != exp:
        bad = next((i for i in range(len(frames)) if not exp.startswith(b"".join(spec.enc_varint(len(d)) + d for d in datas[: i + 1])) or True), 0)
        pos = 0
        for i, d in enumerate(datas):
            fr = spec.enc_varint(len(d)) + d
            if stream[pos:pos + len(fr)] != fr:
                bad = i
                break
            pos += len(fr)
        res.violation("framing", ["stream-differs-from-varint-prefix-framing", "well-known:" + type(frames[bad][0]).__name__],
                      f"frame #{bad} ({type(frames[bad][0]).__name__}): stream {stream[pos:pos + 12].hex()}.. expected prefix {spec.enc_varint(len(datas[bad])).hex()} + {datas[bad][:10].hex()}..", w)
        return res
    rs = io.BytesIO(stream)
    for i, ((m, rcls), d) in enumerate(zip(frames, datas)):
        try:
            got = type(m)().load(rs, betterproto.SIZE_DELIMITED)
            res.note("frames_read")
            if bytes(got) != d:
                res.violation("read-value", ["well-known:" + type(m).__name__, "message-differs"], f"frame #{i}: {bytes(got).hex()[:80]} vs {d.hex()[:80]}", w)
        except Exception as e:
            res.violation("read-raises", ["well-known:" + type(m).__name__, "raised:" + type(e).__name__], f"frame #{i}: {e!r}", w)
            break
    rs = io.BytesIO(stream)
    for i, ((m, rcls), d) in enumerate(zip(frames, datas)):
        try:
            rm = gproto.parse_length_prefixed(rcls, rs)
            if rm is None or rm.SerializeToString(deterministic=True) != rcls.FromString(d).SerializeToString(deterministic=True):
                res.violation("framing-reference-read", ["reference-reads-different-value", "well-known:" + type(m).__name__], f"frame #{i}", w)
                break
            res.note("reference_frames_read")
        except Exception as e:
            res.violation("framing-reference-read", ["reference-reader-raised", type(e).__name__], f"frame #{i}: {e!r}", w)
            break
    return res


def _gen_seq(b, rng, g, wg, bp):
    msgs = b.user_messages()
    seq = []
    for _ in range(rng.randint(1, 6)):
        mi = rng.choice(msgs)
        r = rng.random()
        tree = {} if r < 0.2 else _small(g, mi, rng)
        unk = b""
        if rng.random() < 0.3:
            known = {f.number for f in mi.fields}
            unk = b"".join(wg.unknown_record(known) for _ in range(rng.randint(1, 2)))
            if rng.random() < 0.4:
                # a field the reader KNOWS arriving with a wire type that does not fit its declared type (e.g. written by
                # a schema in which it became repeated / changed type): kept as an unknown field, counted like one
                from .c17 import _fits, _payload_for
                cands = [(f, wt) for f in mi.fields for wt in (0, 1, 2, 5) if f.label != "map" and not _fits(f, wt)]
                if cands:
                    f, wt = rng.choice(cands)
                    unk += _payload_for(wt, f.number, rng)
        seq.append((mi, tree, unk))
    return seq


def _small(g, mi, rng):
    """a small random tree (streams stay short enough to try every cut point)"""
    t = g.tree(mi, 0, "random")
    keys = list(t)
    rng.shuffle(keys)
    return {k: t[k] for k in sorted(keys[: rng.randint(1, 4)])}


def _write(b, bp, seq):
    """returns (stream bytes, list of per-message bytes, messages)"""
    import betterproto

    s = io.BytesIO()
    datas, ms = [], []
    for idx, (mi, tree, unk) in enumerate(seq):
        # every other message is filled in place (containers / sub-messages mutated, parent never assigned)
        m = bp.make(mi, tree, "inplace" if (idx + len(seq)) % 2 else "ctor")
        if unk:
            m = b.bp_class(mi.full_name)().parse(bytes(m) + unk)
        if idx % 3 == 2:
            # a REUSED message object: measured and written once (to a scratch stream), grown through its containers /
            # descendants only, then written to the real stream -- the prefix must describe what is written now
            scratch = io.BytesIO()
            len(m)
            m.dump(scratch, betterproto.SIZE_DELIMITED)
            from ..values import grow_in_place
            grow_in_place(b, m, mi)
        d = bytes(m)
        m.dump(s, betterproto.SIZE_DELIMITED)
        datas.append(d)
        ms.append(m)
    return s.getvalue(), datas, ms


def check_stream(b, rb, seq, res: Result, w, all_cuts=True, only_cut=None):
    """b: writer build; rb: reader build (same or older)."""
    import betterproto

    bp = BP(b)
    rbp = BP(rb)
    ref = REF(b)
    try:
        stream, datas, ms = _write(b, bp, seq)
    except Exception as e:
        res.violation("write-raises", ["raised:" + type(e).__name__], f"dump(SIZE_DELIMITED) raised {e!r}", w)
        return
    res.note("streams")
    kinds = sorted({("empty" if not d else "nonempty") + ("+unknown" if u else "") for (_, _, u), d in zip(seq, datas)})
    # (1) framing
    exp = b"".join(spec.enc_varint(len(d)) + d for d in datas)
    bounds = []
    pos = 0
    for d in datas:
        pos += spec.varint_len(len(d)) + len(d)
        bounds.append(pos)
    if stream != exp:
        res.violation("framing", ["stream-differs-from-varint-prefix-framing", "+".join(kinds)],
                      f"stream={stream.hex()[:200]} expected={exp.hex()[:200]}", w)
        return
    try:
        from google.protobuf import proto as gproto

        rs = io.BytesIO(stream)
        out = io.BytesIO()
        for (mi, tree, unk), d in zip(seq, datas):
            rm = gproto.parse_length_prefixed(b.ref_class(mi.full_name), rs)
            if rm is None:
                res.violation("framing-reference-read", ["reference-reader-eof"], "parse_length_prefixed hit EOF early", w)
                break
            expect_tree = ref.norm(mi, b.ref_class(mi.full_name).FromString(d))
            for df in diff_trees(b, mi, expect_tree, ref.norm(mi, rm)):
                res.violation("framing-reference-read", ["reference-reads-different-value"], df.short(), w)
            gproto.serialize_length_prefixed(b.ref_class(mi.full_name).FromString(d), out)
        res.note("reference_frames_read", len(datas))
        # reference writer framing has the same boundaries when payload sizes agree
    except Exception as e:
        res.violation("framing-reference-read", ["reference-reader-raised", type(e).__name__], f"{e!r}", w)
    # (2)/(3) read back
    same_schema = rb is b
    s = io.BytesIO(stream)
    for i, ((mi, tree, unk), d) in enumerate(zip(seq, datas)):
        rcls = rb.bp_class(mi.full_name)
        try:
            got = rcls().load(s, betterproto.SIZE_DELIMITED)
        except Exception as e:
            res.violation("read-raises", [_frame_kind(d, unk, same_schema), "raised:" + type(e).__name__],
                          f"load #{i} of an intact stream raised {e!r}; frame={d.hex()[:120]}", w)
            break
        res.note("frames_read")
        if s.tell() != bounds[i]:
            res.violation("position", [_frame_kind(d, unk, same_schema), "tell-not-at-frame-boundary"],
                          f"after load #{i} stream.tell()={s.tell()} but the frame ends at {bounds[i]}", w)
            break
        if not _same_message(b, rb, mi, got, d, same_schema):
            res.violation("read-value", [_frame_kind(d, unk, same_schema), "message-differs"],
                          f"load #{i} returned {bytes(got).hex()[:160]} but {d.hex()[:160]} was written", w)
    # (4) cuts
    if only_cut is not None:
        cuts = [only_cut]
    elif len(stream) <= 400:
        cuts = range(len(stream) + 1)  # all cut points
    else:
        # long stream: every frame boundary +-3, every field boundary of the first frames, and a random sample
        cs = set()
        for bd in [0] + bounds:
            cs.update(range(max(0, bd - 3), min(len(stream), bd + 3) + 1))
        rnd = random.Random(len(stream))
        cs.update(rnd.randrange(len(stream) + 1) for _ in range(250))
        cuts = sorted(cs)
        res.note("long_streams_sampled_cuts")
    for c in cuts:
        res.note("cut_executions")
        res.distinct_extra += 1
        s = io.BytesIO(stream[:c])
        for i, ((mi, tree, unk), d) in enumerate(zip(seq, datas)):
            rcls = rb.bp_class(mi.full_name)
            try:
                got = rcls().load(s, betterproto.SIZE_DELIMITED)
            except Exception:
                res.note("cut_load_raised")
                break
            if not _same_message(b, rb, mi, got, d, same_schema):
                where = "mid-frame" if c < bounds[i] else "at-or-after-frame-end"
                res.violation("truncation", [_frame_kind(d, unk, same_schema), where, "returned-different-message"],
                              f"stream cut at {c}/{len(stream)}: load #{i} returned {bytes(got).hex()[:120]!r} instead of raising; written {d.hex()[:120]}",
                              dict(w, cut=c))
                break
            res.note("cut_load_returned_equal")


def _frame_kind(d: bytes, unk: bytes, same_schema: bool) -> str:
    return ("empty" if not d else "nonempty") + ("+unknown" if unk else "") + ("" if same_schema else "+older-reader")


def _same_message(b, rb, mi, got, d: bytes, same_schema: bool) -> bool:
    if same_schema:
        return bytes(got) == d
    # older reader: re-encode and look at it with the writer's schema (unknown fields move to the end)
    wcls = b.bp_class(mi.full_name)
    bp = BP(b)
    return bp.norm(mi, wcls().parse(bytes(got))) == bp.norm(mi, wcls().parse(d))


# ---------------------------------------------------------------------------
# large frames and other kinds of stream objects

def _big_classes():
    import dataclasses
    from typing import Dict, List, Optional

    import betterproto

    ns = {"List": List, "Dict": Dict, "Optional": Optional}
    Leaf = dataclasses.make_dataclass("C10Leaf", [("x", "int", betterproto.int32_field(1)), ("s", "str", betterproto.string_field(2))],
                                      bases=(betterproto.Message,), eq=False, repr=False)
    Leaf.__module__ = __name__
    globals()["C10Leaf"] = Leaf
    Big = dataclasses.make_dataclass("C10Big", [
        ("id", "int", betterproto.int64_field(1)), ("name", "str", betterproto.string_field(2)), ("blob", "bytes", betterproto.bytes_field(3)),
        ("nums", "List[int]", betterproto.int32_field(4)), ("leaves", "List[C10Leaf]", betterproto.message_field(5)),
        ("tags", "List[str]", betterproto.string_field(6)), ("fx", "List[float]", betterproto.double_field(7)),
        ("m", "Dict[str, C10Leaf]", betterproto.map_field(8, betterproto.TYPE_STRING, betterproto.TYPE_MESSAGE)),
        ("leaf", "C10Leaf", betterproto.message_field(17)), ("big_no", "int", betterproto.uint64_field(300)),
        ("opt", "Optional[str]", betterproto.string_field(18, optional=True)),
    ], bases=(betterproto.Message,), eq=False, repr=False)
    Big.__module__ = __name__
    globals()["C10Big"] = Big
    globals().update(ns)
    return Leaf, Big


def _big_messages(rng, Leaf, Big):
    """messages whose frames are 0 .. ~20000 bytes, with sizes around 127/128, 1023/1024, 8191/8192, 16383/16384"""
    def filler(n):
        return bytes(rng.randrange(256) for _ in range(n))

    out = [Big(), Leaf(), Big(id=1)]
    for target in (100, 126, 127, 128, 129, 1000, 1022, 1023, 1024, 1025, 1500, 4000, 8185, 8190, 8192, 8200, 16380, 16384, 16390, 20000):
        shape = rng.choice(["blob", "leaves", "tags", "nums", "map", "mixed"])
        m = Big(id=rng.choice([0, 1, -1, 2 ** 40]))
        if shape == "blob":
            m.blob = filler(max(0, target - 6))
        elif shape == "leaves":
            m.leaves = [Leaf(x=i, s="l%d" % i) for i in range(max(1, target // 9))]
        elif shape == "tags":
            m.tags = ["t%04d" % i for i in range(max(1, target // 7))]
        elif shape == "nums":
            m.nums = [rng.choice([0, 1, 127, 128, 300, -1, 2 ** 31 - 1]) for _ in range(max(1, target // 3))]
        elif shape == "map":
            m.m = {"k%04d" % i: Leaf(x=i) for i in range(max(1, target // 13))}
        else:
            m.name = "n" * (target // 4)
            m.leaves = [Leaf(x=i) for i in range(target // 16)]
            m.fx = [float(i) for i in range(target // 40)]
            m.big_no = 2 ** 63
            m.leaf = Leaf(s="z" * (target // 8))
            m.opt = ""
        if rng.random() < 0.3:
            m.leaf = Leaf()  # an empty message at the very end of the frame is not emitted; a parsed-empty one below is
        out.append(m)
    out.append(Big().parse(bytes(Big(name="x" * 1100)) + b"\xa2\x06\x00"))  # large, ends with an unknown empty record (#100)
    out.append(Big().parse(b"\x8a\x01\x00" + bytes(Big(tags=["q" * 50] * 30))))  # present-but-empty leaf first
    return out


class _OneByteRaw(io.RawIOBase):
    """a raw stream that hands out at most `chunk` bytes per read call (what sockets and pipes do)"""

    def __init__(self, data: bytes, chunk: int):
        self._b = io.BytesIO(data)
        self._chunk = chunk

    def readable(self):
        return True

    def readinto(self, buf):
        d = self._b.read(min(len(buf), self._chunk))
        buf[:len(d)] = d
        return len(d)


def _stream_kinds(data: bytes, workdir: str):
    """name -> factory of a readable binary stream over `data`"""
    import gzip
    import os

    path = os.path.join(workdir, "c10big.bin")
    with open(path, "wb") as fh:
        fh.write(data)
    gz = os.path.join(workdir, "c10big.gz")
    with gzip.open(gz, "wb") as fh:
        fh.write(data)
    return {
        "BytesIO": lambda: io.BytesIO(data),
        "file-rb": lambda: open(path, "rb"),
        "file-rb-unbuffered": lambda: open(path, "rb", buffering=0),
        "file-rb-buffer-16": lambda: open(path, "rb", buffering=16),
        "BufferedReader-1": lambda: io.BufferedReader(io.BytesIO(data), buffer_size=1),
        "BufferedReader-7": lambda: io.BufferedReader(io.BytesIO(data), buffer_size=7),
        "BufferedReader-over-short-reads": lambda: io.BufferedReader(_OneByteRaw(data, 3), buffer_size=64),
        "gzip": lambda: gzip.open(gz, "rb"),
    }


def run_big(shard) -> Result:
    import os
    import tempfile

    import betterproto

    res = Result()
    rng = random.Random(f"c10big-{shard['seed']}")
    Leaf, Big = _big_classes()
    from .. import env as _env

    os.makedirs(_env.WORK, exist_ok=True)
    workdir = tempfile.mkdtemp(prefix="c10big-", dir=_env.WORK)
    try:
        msgs = _big_messages(rng, Leaf, Big)
        order = list(range(len(msgs)))
        for rep in range(shard.get("reps", 2)):
            rng.shuffle(order)
            seq = [msgs[i] for i in order]
            datas = [bytes(m) for m in seq]
            s = io.BytesIO()
            for m in seq:
                m.dump(s, betterproto.SIZE_DELIMITED)
            stream = s.getvalue()
            exp = b"".join(spec.enc_varint(len(d)) + d for d in datas)
            w = {"kind": "big", "seed": shard["seed"], "reps": rep + 1}
            res.evaluations += 1
            res.note("streams")
            res.note("big_frames", len(seq))
            res.distinct.add(f"big:{shard['seed']}:{rep}")
            if stream != exp:
                res.violation("framing", ["big", "stream-differs-from-varint-len-plus-bytes"], f"{len(stream)} bytes written, {len(exp)} expected", w)
                continue
            bounds, pos = [], 0
            for d in datas:
                pos += len(spec.enc_varint(len(d))) + len(d)
                bounds.append(pos)
            # (a) read back through every kind of stream object
            for kind, make in _stream_kinds(stream, workdir).items():
                fh = make()
                try:
                    for i, m in enumerate(seq):
                        try:
                            got = type(m)().load(fh, betterproto.SIZE_DELIMITED)
                        except Exception as e:
                            res.violation("readback", ["big", kind, "raised:" + type(e).__name__],
                                          f"frame {i} of {len(seq)} ({len(datas[i])} bytes, ends at {bounds[i]}) through {kind}: {e!r}", w)
                            break
                        res.note("big_loads")
                        if bytes(got) != datas[i] or got != m:
                            res.violation("readback", ["big", kind, "differs"], f"frame {i} ({len(datas[i])} bytes) through {kind} differs from what was written", w)
                            break
                        try:
                            at = fh.tell()
                        except Exception:
                            at = None
                        if at is not None and kind != "gzip" and at != bounds[i]:
                            res.violation("position", ["big", kind, "tell-not-at-frame-boundary"], f"after frame {i} tell()={at}, boundary {bounds[i]}", w)
                            break
                finally:
                    fh.close()
                res.note("stream_kind:" + kind)
            # (b) truncation, frame by frame behind one small frame: every cut inside the length prefix, the first / last /
            # a sample of the top-level record boundaries (and the byte before and after each), a few random positions
            head = spec.enc_varint(len(datas[0])) + datas[0]
            for i, d in enumerate(datas):
                pre = spec.enc_varint(len(d))
                one = head + pre + d
                base = len(head) + len(pre)
                recs = spec.read_records(d)
                few = len(d) > 2100  # decoding is pure Python: the largest frames get a handful of cuts only
                pick = (recs[:1] + recs[-1:] + [rng.choice(recs)] if few else recs[:8] + recs[-8:] + [rng.choice(recs) for _ in range(14)]) if recs else []
                cuts = set(range(len(head), base + 1))
                for rec in pick:
                    cuts.update((base + rec.start - 1, base + rec.start, base + rec.start + 1, base + rec.payload_start, base + rec.end - 1))
                for _ in range(2 if few else 8):
                    cuts.add(rng.randrange(len(head), len(one)))
                starts = {base + r.start for r in recs}
                for c in sorted(x for x in cuts if len(head) <= x < len(one)):
                    fh = io.BytesIO(one[:c])
                    try:
                        type(seq[0])().load(fh, betterproto.SIZE_DELIMITED)
                        got = type(seq[i])().load(fh, betterproto.SIZE_DELIMITED)
                    except Exception:
                        res.note("cut_executions")
                        continue
                    res.note("cut_executions")
                    where = "at-record-boundary" if c in starts else "inside-record"
                    size = ">=1024" if len(d) >= 1024 else "<1024"
                    if bytes(got) != d:
                        res.violation("truncation", ["big", "shortened-message-returned", where, size],
                                      f"frame of {len(d)} bytes cut after {c - base} payload bytes: load returned a message of {len(bytes(got))} bytes", w)
                    else:
                        res.violation("truncation", ["big", "message-returned-beyond-cut", where, size],
                                      f"frame of {len(d)} bytes cut after {c - base} payload bytes: load returned the whole message", w)
        res.sample({"big_stream": [len(bytes(m)) for m in msgs][:30], "stream_kinds": sorted(_stream_kinds(b"", workdir))})
    except Exception as e:
        res.inconclusive.append(f"oracle crashed: {type(e).__name__}: {e}\n{traceback.format_exc()[-1500:]}")
    finally:
        import shutil

        shutil.rmtree(workdir, ignore_errors=True)
    return res


def run_shard(shard) -> Result:
    if shard.get("kind") == "directed":
        return run_directed(shard)
    if shard.get("kind") == "big":
        return run_big(shard)
    res = Result()
    rng = random.Random(f"c10-{shard['seed']}")
    try:
        if shard["kind"] == "same":
            b = corpus.build_item(shard["item"])
            rb = b
        else:
            newp, oldp = _pair(shard["pair"])
            b = Build(newp).full()
            rb = Build(oldp).full()
    except BuildError as e:
        res.inconclusive.append(f"SUT could not be built: {e.stage}: {e.detail[-500:]}")
        return res
    try:
        monitors.install(CONTRACTS)
        g = Gen(b, rng, max_depth=2)
        wg = WireGen(b, rng)
        bp = BP(b)
        import time as _time

        t_end = _time.time() + shard.get("time_cap", 30)
        for k in range(shard["n"]):
            if _time.time() > t_end:
                res.note("streams-skipped-by-time-cap")
                continue
            seq = _gen_seq(b, rng, g, wg, bp)
            w = {"shard": {kk: shard[kk] for kk in shard if kk in ("kind", "item", "pair")},
                 "seq": [{"msg": mi.full_name, "tree": tree_to_json(t), "unk": u.hex()} for mi, t, u in seq]}
            monitors.set_context(w)
            res.evaluations += 1
            try:
                check_stream(b, rb, seq, res, w)
            except Exception as e:
                res.inconclusive.append(f"oracle crashed: {type(e).__name__}: {e}\n{traceback.format_exc()[-1200:]}")
                break
            if len(res.samples) < 2:
                res.sample({"stream_of": [s["msg"] for s in w["seq"]], "with_unknown": [bool(s["unk"]) for s in w["seq"]],
                            "reader": shard["kind"]})
        monitors.drain(res, PROP)
    finally:
        b.cleanup()
        if rb is not b:
            rb.cleanup()
    return res


def replay(w):
    if w.get("kind") == "directed":
        return run_directed({"kind": "directed", "seed": 0}).violations
    if w.get("kind") == "big":
        return run_big({"kind": "big", "seed": w["seed"], "reps": w.get("reps", 2)}).violations
    res = Result()
    sh = w["shard"]
    if sh["kind"] == "same":
        b = corpus.build_item(sh["item"])
        rb = b
    else:
        newp, oldp = _pair(sh["pair"])
        b = Build(newp).full()
        rb = Build(oldp).full()
    try:
        seq = [(b.msgs[s["msg"]], tree_from_json(s["tree"]), bytes.fromhex(s["unk"])) for s in w["seq"]]
        check_stream(b, rb, seq, res, w, only_cut=w.get("cut"))
    finally:
        b.cleanup()
        if rb is not b:
            rb.cleanup()
    return res.violations
