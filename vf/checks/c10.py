"""C10 Delimited streams read back intact; truncation never yields a partial message."""
from __future__ import annotations

import io
import random
import traceback

from .. import corpus, monitors, spec
from ..build import Build, BuildError
from ..core import Result
from ..values import BP, REF, Gen, diff_trees, tree_from_json, tree_to_json
from ..wiregen import WireGen
from .c08 import _pair

PROP = "C10"
LEVEL = "exploration"
RULE = ("sequences of 1..6 messages of mixed types of one schema (random / empty / maximal values, and messages carrying "
        "unknown fields) are written with dump(stream, SIZE_DELIMITED); monitors: (1) the stream equals spec-varint(len)+"
        "bytes per frame and google.protobuf's parse_length_prefixed reads every frame to the same tree; (2) successive "
        "load(stream, SIZE_DELIMITED) calls return the written sequence and stream.tell() after call i is the i-th frame "
        "boundary computed by the spec codec; (3) the same with a reader whose schema is older (fields deleted); (4) for "
        "EVERY cut point 0..len(stream) each load either raises or returns the i-th written message. "
        "Writer objects are partly reused (measured, grown in place, written again); frames may hold records of known numbers with non-fitting wire types; a directed stream holds the bundled well-known messages and messages alternating between +0.0 and -0.0. distinct = distinct (stream bytes, cut) executions; a one-message stream with no cut is the trivial case.")
ASSUMPTIONS = [
    "frame boundaries come from the independent spec-level codec; reference framing = google.protobuf.proto.serialize_length_prefixed",
    "streams are io.BytesIO; a load that raises ends the reading of that stream",
    "ruff is replaced by an identity stand-in when the plugin formats its output",
]
FLOORS = {"quick": {"streams": 150, "cut_executions": 15000}, "thorough": {"streams": 6000, "cut_executions": 600000}}
ANCHORS = ['Message.load', 'Message.dump', 'load_fields', 'load_varint', 'dump_varint']
CONTRACTS = ["bytes"]


def plan(tier, seed):
    items = corpus.value_items(tier, seed, 6 if tier == "quick" else 60, with_inputs=False)
    n = 24 if tier == "quick" else 120
    shards = []
    for i, it in enumerate(items):
        reps = 4 if it["kind"] == "matrix" else 1
        for r in range(reps):
            shards.append({"kind": "same", "item": it, "seed": seed * 9176 + i * 13 + r, "n": n, "time_cap": 30 if tier == "quick" else 600})
    for i in range(6 if tier == "quick" else 60):
        shards.append({"kind": "older", "pair": seed * 50021 + i, "seed": seed * 77 + i, "n": n, "time_cap": 30 if tier == "quick" else 600})
    shards.append({"kind": "directed", "seed": seed})
    return shards


def run_directed(shard) -> Result:
    """streams of (a) the bundled well-known message classes as top-level frames, (b) matrix messages whose wrapper /
    float fields alternate between +0.0 and -0.0 (equal values with different encodings, frame after frame), written by
    betterproto and read back by betterproto and by the reference's length-prefixed reader"""
    import betterproto
    import betterproto.lib.google.protobuf as g
    from google.protobuf import proto as gproto
    from google.protobuf import struct_pb2, wrappers_pb2, any_pb2, field_mask_pb2, empty_pb2

    res = Result()
    w = {"kind": "directed"}
    frames = [
        (g.Struct(fields={"a": g.Value(number_value=1.5), "b": g.Value(string_value="x"), "c": g.Value(bool_value=True)}), struct_pb2.Struct),
        (g.DoubleValue(value=0.0), wrappers_pb2.DoubleValue), (g.DoubleValue(value=-0.0), wrappers_pb2.DoubleValue),
        (g.DoubleValue(value=0.0), wrappers_pb2.DoubleValue), (g.FloatValue(value=-0.0), wrappers_pb2.FloatValue),
        (g.FloatValue(value=0.0), wrappers_pb2.FloatValue), (g.Struct(), struct_pb2.Struct),
        (g.ListValue(values=[g.Value(number_value=1), g.Value(string_value="s")]), struct_pb2.ListValue),
        (g.Any(type_url="t/x", value=b"abc"), any_pb2.Any), (g.FieldMask(paths=["a", "b.c"]), field_mask_pb2.FieldMask),
        (g.Empty(), empty_pb2.Empty), (g.Int64Value(value=-1), wrappers_pb2.Int64Value),
        (g.Struct(fields={"k" + str(i): g.Value(number_value=i) for i in range(12)}), struct_pb2.Struct),
    ]
    # generated messages whose wrapper-typed / float FIELDS alternate between the two zeros
    mb = corpus.build_item({"kind": "matrix"})
    try:
        from ..values import attr_names as _an

        Wkt = mb.bp_class(".vf.matrix.Wkt")
        Sc = mb.bp_class(".vf.matrix.Scalars")
        Rp = mb.bp_class(".vf.matrix.Repeateds")
        rW, rS, rR = (mb.ref_class(".vf.matrix." + n) for n in ("Wkt", "Scalars", "Repeateds"))
        for z in (0.0, -0.0, 0.0, -0.0, 1.5, -0.0):
            frames.append((Wkt(w_double=z, w_float=-z if z == 0 else z), rW))
            frames.append((Sc(f_double=z, f_float=z), rS))
            frames.append((Rp(r_double=[z, -z if z == 0 else 2.5], r_float=[z]), rR))
    except Exception:
        mb.cleanup()
        raise
    try:
        return _directed_stream(frames, res, w)
    finally:
        mb.cleanup()


def _directed_stream(frames, res: Result, w) -> Result:
    import betterproto
    from google.protobuf import proto as gproto

    s = io.BytesIO()
    datas = []
    for m, _ in frames:
        m.dump(s, betterproto.SIZE_DELIMITED)
        datas.append(bytes(m))
    stream = s.getvalue()
    exp = b"".join(spec.enc_varint(len(d)) + d for d in datas)
    res.evaluations += 1
    res.note("streams")
    res.note("directed_wellknown_frames", len(frames))
    if stream != exp:
        bad = next((i for i in range(len(frames)) if not exp.startswith(b"".join(spec.enc_varint(len(d)) + d for d in datas[: i + 1])) or True), 0)
        pos = 0
        for i, d in enumerate(datas):
            fr = spec.enc_varint(len(d)) + d
            if stream[pos:pos + len(fr)] != fr:
                bad = i
                break
            pos += len(fr)
        res.violation("framing", ["stream-differs-from-varint-prefix-framing", "well-known:" + type(frames[bad][0]).__name__],
                      f"frame #{bad} ({type(frames[bad][0]).__name__}): stream {stream[pos:pos + 12].hex()}.. expected prefix {spec.enc_varint(len(datas[bad])).hex()} + {datas[bad][:10].hex()}..", w)
        return res
    rs = io.BytesIO(stream)
    for i, ((m, rcls), d) in enumerate(zip(frames, datas)):
        try:
            got = type(m)().load(rs, betterproto.SIZE_DELIMITED)
            res.note("frames_read")
            if bytes(got) != d:
                res.violation("read-value", ["well-known:" + type(m).__name__, "message-differs"], f"frame #{i}: {bytes(got).hex()[:80]} vs {d.hex()[:80]}", w)
        except Exception as e:
            res.violation("read-raises", ["well-known:" + type(m).__name__, "raised:" + type(e).__name__], f"frame #{i}: {e!r}", w)
            break
    rs = io.BytesIO(stream)
    for i, ((m, rcls), d) in enumerate(zip(frames, datas)):
        try:
            rm = gproto.parse_length_prefixed(rcls, rs)
            if rm is None or rm.SerializeToString(deterministic=True) != rcls.FromString(d).SerializeToString(deterministic=True):
                res.violation("framing-reference-read", ["reference-reads-different-value", "well-known:" + type(m).__name__], f"frame #{i}", w)
                break
            res.note("reference_frames_read")
        except Exception as e:
            res.violation("framing-reference-read", ["reference-reader-raised", type(e).__name__], f"frame #{i}: {e!r}", w)
            break
    return res


def _gen_seq(b, rng, g, wg, bp):
    msgs = b.user_messages()
    seq = []
    for _ in range(rng.randint(1, 6)):
        mi = rng.choice(msgs)
        r = rng.random()
        tree = {} if r < 0.2 else _small(g, mi, rng)
        unk = b""
        if rng.random() < 0.3:
            known = {f.number for f in mi.fields}
            unk = b"".join(wg.unknown_record(known) for _ in range(rng.randint(1, 2)))
            if rng.random() < 0.4:
                # a field the reader KNOWS arriving with a wire type that does not fit its declared type (e.g. written by
                # a schema in which it became repeated / changed type): kept as an unknown field, counted like one
                from .c17 import _fits, _payload_for
                cands = [(f, wt) for f in mi.fields for wt in (0, 1, 2, 5) if f.label != "map" and not _fits(f, wt)]
                if cands:
                    f, wt = rng.choice(cands)
                    unk += _payload_for(wt, f.number, rng)
        seq.append((mi, tree, unk))
    return seq


def _small(g, mi, rng):
    """a small random tree (streams stay short enough to try every cut point)"""
    t = g.tree(mi, 0, "random")
    keys = list(t)
    rng.shuffle(keys)
    return {k: t[k] for k in sorted(keys[: rng.randint(1, 4)])}


def _write(b, bp, seq):
    """returns (stream bytes, list of per-message bytes, messages)"""
    import betterproto

    s = io.BytesIO()
    datas, ms = [], []
    for idx, (mi, tree, unk) in enumerate(seq):
        # every other message is filled in place (containers / sub-messages mutated, parent never assigned)
        m = bp.make(mi, tree, "inplace" if (idx + len(seq)) % 2 else "ctor")
        if unk:
            m = b.bp_class(mi.full_name)().parse(bytes(m) + unk)
        if idx % 3 == 2:
            # a REUSED message object: measured and written once (to a scratch stream), grown through its containers /
            # descendants only, then written to the real stream -- the prefix must describe what is written now
            scratch = io.BytesIO()
            len(m)
            m.dump(scratch, betterproto.SIZE_DELIMITED)
            from ..values import grow_in_place
            grow_in_place(b, m, mi)
        d = bytes(m)
        m.dump(s, betterproto.SIZE_DELIMITED)
        datas.append(d)
        ms.append(m)
    return s.getvalue(), datas, ms


def check_stream(b, rb, seq, res: Result, w, all_cuts=True, only_cut=None):
    """b: writer build; rb: reader build (same or older)."""
    import betterproto

    bp = BP(b)
    rbp = BP(rb)
    ref = REF(b)
    try:
        stream, datas, ms = _write(b, bp, seq)
    except Exception as e:
        res.violation("write-raises", ["raised:" + type(e).__name__], f"dump(SIZE_DELIMITED) raised {e!r}", w)
        return
    res.note("streams")
    kinds = sorted({("empty" if not d else "nonempty") + ("+unknown" if u else "") for (_, _, u), d in zip(seq, datas)})
    # (1) framing
    exp = b"".join(spec.enc_varint(len(d)) + d for d in datas)
    bounds = []
    pos = 0
    for d in datas:
        pos += spec.varint_len(len(d)) + len(d)
        bounds.append(pos)
    if stream != exp:
        res.violation("framing", ["stream-differs-from-varint-prefix-framing", "+".join(kinds)],
                      f"stream={stream.hex()[:200]} expected={exp.hex()[:200]}", w)
        return
    try:
        from google.protobuf import proto as gproto

        rs = io.BytesIO(stream)
        out = io.BytesIO()
        for (mi, tree, unk), d in zip(seq, datas):
            rm = gproto.parse_length_prefixed(b.ref_class(mi.full_name), rs)
            if rm is None:
                res.violation("framing-reference-read", ["reference-reader-eof"], "parse_length_prefixed hit EOF early", w)
                break
            expect_tree = ref.norm(mi, b.ref_class(mi.full_name).FromString(d))
            for df in diff_trees(b, mi, expect_tree, ref.norm(mi, rm)):
                res.violation("framing-reference-read", ["reference-reads-different-value"], df.short(), w)
            gproto.serialize_length_prefixed(b.ref_class(mi.full_name).FromString(d), out)
        res.note("reference_frames_read", len(datas))
        # reference writer framing has the same boundaries when payload sizes agree
    except Exception as e:
        res.violation("framing-reference-read", ["reference-reader-raised", type(e).__name__], f"{e!r}", w)
    # (2)/(3) read back
    same_schema = rb is b
    s = io.BytesIO(stream)
    for i, ((mi, tree, unk), d) in enumerate(zip(seq, datas)):
        rcls = rb.bp_class(mi.full_name)
        try:
            got = rcls().load(s, betterproto.SIZE_DELIMITED)
        except Exception as e:
            res.violation("read-raises", [_frame_kind(d, unk, same_schema), "raised:" + type(e).__name__],
                          f"load #{i} of an intact stream raised {e!r}; frame={d.hex()[:120]}", w)
            break
        res.note("frames_read")
        if s.tell() != bounds[i]:
            res.violation("position", [_frame_kind(d, unk, same_schema), "tell-not-at-frame-boundary"],
                          f"after load #{i} stream.tell()={s.tell()} but the frame ends at {bounds[i]}", w)
            break
        if not _same_message(b, rb, mi, got, d, same_schema):
            res.violation("read-value", [_frame_kind(d, unk, same_schema), "message-differs"],
                          f"load #{i} returned {bytes(got).hex()[:160]} but {d.hex()[:160]} was written", w)
    # (4) cuts
    if only_cut is not None:
        cuts = [only_cut]
    elif len(stream) <= 400:
        cuts = range(len(stream) + 1)  # all cut points
    else:
        # long stream: every frame boundary +-3, every field boundary of the first frames, and a random sample
        cs = set()
        for bd in [0] + bounds:
            cs.update(range(max(0, bd - 3), min(len(stream), bd + 3) + 1))
        rnd = random.Random(len(stream))
        cs.update(rnd.randrange(len(stream) + 1) for _ in range(250))
        cuts = sorted(cs)
        res.note("long_streams_sampled_cuts")
    for c in cuts:
        res.note("cut_executions")
        res.distinct_extra += 1
        s = io.BytesIO(stream[:c])
        for i, ((mi, tree, unk), d) in enumerate(zip(seq, datas)):
            rcls = rb.bp_class(mi.full_name)
            try:
                got = rcls().load(s, betterproto.SIZE_DELIMITED)
            except Exception:
                res.note("cut_load_raised")
                break
            if not _same_message(b, rb, mi, got, d, same_schema):
                where = "mid-frame" if c < bounds[i] else "at-or-after-frame-end"
                res.violation("truncation", [_frame_kind(d, unk, same_schema), where, "returned-different-message"],
                              f"stream cut at {c}/{len(stream)}: load #{i} returned {bytes(got).hex()[:120]!r} instead of raising; written {d.hex()[:120]}",
                              dict(w, cut=c))
                break
            res.note("cut_load_returned_equal")


def _frame_kind(d: bytes, unk: bytes, same_schema: bool) -> str:
    return ("empty" if not d else "nonempty") + ("+unknown" if unk else "") + ("" if same_schema else "+older-reader")


def _same_message(b, rb, mi, got, d: bytes, same_schema: bool) -> bool:
    if same_schema:
        return bytes(got) == d
    # older reader: re-encode and look at it with the writer's schema (unknown fields move to the end)
    wcls = b.bp_class(mi.full_name)
    bp = BP(b)
    return bp.norm(mi, wcls().parse(bytes(got))) == bp.norm(mi, wcls().parse(d))


def run_shard(shard) -> Result:
    if shard.get("kind") == "directed":
        return run_directed(shard)
    res = Result()
    rng = random.Random(f"c10-{shard['seed']}")
    try:
        if shard["kind"] == "same":
            b = corpus.build_item(shard["item"])
            rb = b
        else:
            newp, oldp = _pair(shard["pair"])
            b = Build(newp).full()
            rb = Build(oldp).full()
    except BuildError as e:
        res.inconclusive.append(f"SUT could not be built: {e.stage}: {e.detail[-500:]}")
        return res
    try:
        monitors.install(CONTRACTS)
        g = Gen(b, rng, max_depth=2)
        wg = WireGen(b, rng)
        bp = BP(b)
        import time as _time

        t_end = _time.time() + shard.get("time_cap", 30)
        for k in range(shard["n"]):
            if _time.time() > t_end:
                res.note("streams-skipped-by-time-cap")
                continue
            seq = _gen_seq(b, rng, g, wg, bp)
            w = {"shard": {kk: shard[kk] for kk in shard if kk in ("kind", "item", "pair")},
                 "seq": [{"msg": mi.full_name, "tree": tree_to_json(t), "unk": u.hex()} for mi, t, u in seq]}
            monitors.set_context(w)
            res.evaluations += 1
            try:
                check_stream(b, rb, seq, res, w)
            except Exception as e:
                res.inconclusive.append(f"oracle crashed: {type(e).__name__}: {e}\n{traceback.format_exc()[-1200:]}")
                break
            if len(res.samples) < 2:
                res.sample({"stream_of": [s["msg"] for s in w["seq"]], "with_unknown": [bool(s["unk"]) for s in w["seq"]],
                            "reader": shard["kind"]})
        monitors.drain(res, PROP)
    finally:
        b.cleanup()
        if rb is not b:
            rb.cleanup()
    return res


def replay(w):
    if w.get("kind") == "directed":
        return run_directed({"kind": "directed", "seed": 0}).violations
    res = Result()
    sh = w["shard"]
    if sh["kind"] == "same":
        b = corpus.build_item(sh["item"])
        rb = b
    else:
        newp, oldp = _pair(sh["pair"])
        b = Build(newp).full()
        rb = Build(oldp).full()
    try:
        seq = [(b.msgs[s["msg"]], tree_from_json(s["tree"]), bytes.fromhex(s["unk"])) for s in w["seq"]]
        check_stream(b, rb, seq, res, w, only_cut=w.get("cut"))
    finally:
        b.cleanup()
        if rb is not b:
            rb.cleanup()
    return res.violations
