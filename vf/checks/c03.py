"""C03 Plugin output faithfully implements the schema (translation validity)."""
from __future__ import annotations

import dataclasses
import random
import traceback
import typing
from datetime import datetime, timedelta

from .. import corpus
from ..build import Build, BuildError, TYPE_NAMES, WRAPPERS
from ..core import Result
from ..values import hints_of

PROP = "C03"
LEVEL = "translation_validation"
LEVEL_TEXT = ("translation validation by observation: for each generated program (schema set) the plugin's output is imported and "
              "compared field by field with the FileDescriptorSet protoc emitted for the same sources (read by google.protobuf's "
              "own descriptor classes); held on the programs explored, not a proof of the translator")
RULE = ("programs = seeded G-schema sets (packages of depth 0..3, nested types, all 15 scalar kinds, enums with negative / "
        "aliased numbers, maps over every legal key kind, oneofs, proto3 optional, repeated, recursive and mutually "
        "recursive messages, well-known types, keyword / builtin / digit-bearing / camelCase field names, comments incl. "
        "quotes and backslashes, services) + every tests/inputs directory, each compiled by real protoc + the plugin. "
        "Checks per program: plugin succeeds, every generated package imports, message/enum <-> class bijection, and per "
        "field: number, proto type, cardinality (singular / optional / repeated / map with key+value kinds), oneof group, "
        "wrapper / Timestamp / Duration mapping, resolved Python type, enum member numbers. Separately the bundled "
        "descriptor / plugin / well-known-type classes are compared with descriptor_pb2 / plugin_pb2 / the WKT descriptors "
        "of google.protobuf on every shared field (finite, enumerated completely). Programs also include single-feature packages, multi-file extra sets (each package additionally imported first in a fresh interpreter; protoc invoked with all files and with only the root files on its command line); bundled classes are compared by field name as well as by number. disagreements_checked = field + enum "
        "member comparisons.")
ASSUMPTIONS = [
    "a schema protoc itself rejects is a generator bug: discarded and counted (more than 2% discards => inconclusive)",
    "outside the grammar (DESIGN 3.3): field names equal to Message API names, flattening collisions, upper-case package names, "
    "lower-case nested message names, Struct/Value, comments containing triple quotes",
    "ruff is replaced by an identity stand-in (unused imports stay; a syntactically invalid module fails at import instead of inside ruff)",
]
FLOORS = {"quick": {"programs": 40, "comparisons": 2000, "bundled_fields": 200},
          "thorough": {"programs": 400, "comparisons": 30000, "bundled_fields": 200}}
PLUGIN_ANCHORS = ['generate_code', 'read_protobuf_type', 'FieldCompiler.get_field_string', 'MapEntryCompiler.__post_init__', 'OneOfFieldCompiler.betterproto_field_args', 'EnumDefinitionCompiler.__post_init__', 'is_map', 'is_oneof', 'outputfile_compiler', 'get_comment']
CONTRACTS = []

PY_OF = {"double": float, "float": float, "bool": bool, "string": str, "bytes": bytes}
for _k in ("int32", "int64", "uint32", "uint64", "sint32", "sint64", "fixed32", "fixed64", "sfixed32", "sfixed64"):
    PY_OF[_k] = int

# tests/inputs directories that are outside the property's quantifier
INPUTS_OUTSIDE = {
    "import_capitalized_package": "upper-case package name (outside grammar; upstream xfail)",
}


def plan(tier, seed):
    shards = []
    n = 48 if tier == "quick" else 400
    per = 3 if tier == "quick" else 8
    for i in range(0, n, per):
        shards.append({"kind": "gen", "seeds": [seed * 100003 + 5000 + j for j in range(i, i + per)]})
    dirs = corpus.inputs_dirs()
    for i in range(0, len(dirs), 6):
        shards.append({"kind": "inputs", "dirs": dirs[i:i + 6]})
    shards.append({"kind": "matrix"})
    shards.append({"kind": "features"})
    for nm in corpus.extra_names():
        shards.append({"kind": "extra", "name": nm})
        if len(corpus.EXTRA_SETS[nm]) > 1:
            shards.append({"kind": "extra", "name": nm, "cmdline": "roots"})  # only the top files named on the protoc command line
    shards.append({"kind": "bundled"})
    return shards


def _strip_optional(h):
    args = getattr(h, "__args__", None)
    if args and type(None) in args:
        rest = [a for a in args if a is not type(None)]
        if len(rest) == 1:
            return rest[0], True
    return h, False


def check_program(b: Build, res: Result, w, name: str):
    import betterproto

    res.counters["programs"] += 1
    res.evaluations += 1
    res.distinct.add(name)
    # class <-> type bijection per module
    by_pkg = {}
    for mi in b.user_messages():
        by_pkg.setdefault(mi.package, {"msgs": [], "enums": []})["msgs"].append(mi)
    for full, ei in b.enums.items():
        if full.startswith(".google.protobuf."):
            continue
        pkg, _ = b._split_enum(full)
        by_pkg.setdefault(pkg, {"msgs": [], "enums": []})["enums"].append((full, ei))
    for pkg, d in by_pkg.items():
        try:
            mod = b.module(pkg)
        except Exception as e:
            res.violation("import", ["module", type(e).__name__], f"{name}: package {pkg!r}: {e!r}", w)
            continue
        mcls = [o for o in list(vars(mod).values()) if isinstance(o, type) and issubclass(o, betterproto.Message) and o.__module__ == mod.__name__]
        ecls = [o for o in list(vars(mod).values()) if isinstance(o, type) and issubclass(o, betterproto.Enum) and o.__module__ == mod.__name__]
        if len(mcls) != len(d["msgs"]):
            res.violation("bijection", ["messages", "class-count-differs"],
                          f"{name} package {pkg!r}: {len(d['msgs'])} messages in the schema, {len(mcls)} message classes generated", w)
        if len(ecls) != len(d["enums"]):
            res.violation("bijection", ["enums", "class-count-differs"],
                          f"{name} package {pkg!r}: {len(d['enums'])} enums in the schema, {len(ecls)} enum classes generated", w)
        seen = {}
        for mi in d["msgs"]:
            try:
                c = b.bp_class(mi.full_name)
            except BuildError as e:
                res.violation("bijection", ["messages", "class-missing"], f"{name}: {e}", w)
                continue
            if id(c) in seen:
                res.violation("bijection", ["messages", "two-messages-one-class"], f"{name}: {mi.full_name} and {seen[id(c)]} share class {c.__name__}", w)
            seen[id(c)] = mi.full_name
            check_message(b, mi, c, res, dict(w, msg=mi.full_name), name)
        for full, ei in d["enums"]:
            try:
                E = b.bp_enum(full)
            except BuildError as e:
                res.violation("bijection", ["enums", "class-missing"], f"{name}: {e}", w)
                continue
            nums = sorted(int(m) for m in E.__members__.values())
            res.counters["comparisons"] += len(ei.values)
            if nums != sorted(n for _, n in ei.values):
                res.violation("enum", ["member-numbers-differ", "alias" if ei.allow_alias else "plain"],
                              f"{name}: enum {full}: schema numbers {sorted(n for _, n in ei.values)}, generated {nums}", w)
    res.counters["features:services"] += len(b.services)


def check_message(b, mi, c, res: Result, w, name):
    import betterproto

    try:
        flds = dataclasses.fields(c)
        hints = hints_of(c)
    except Exception as e:
        res.violation("class", ["introspection-raised:" + type(e).__name__], f"{name}: {mi.full_name}: {e!r}", w)
        return
    try:
        c()
    except Exception as e:
        res.violation("class", ["not-instantiable:" + type(e).__name__], f"{name}: {mi.full_name}(): {e!r}", w)
    by_num = {}
    for f in flds:
        meta = f.metadata.get("betterproto")
        if meta is None:
            continue
        if meta.number in by_num:
            res.violation("field", ["duplicate-number", "-"], f"{name}: {mi.full_name}: number {meta.number} twice", w)
        by_num[meta.number] = (f, meta)
    if sorted(by_num) != sorted(f.number for f in mi.fields):
        res.violation("field", ["field-set-differs", "-"],
                      f"{name}: {mi.full_name}: schema numbers {sorted(f.number for f in mi.fields)}, class numbers {sorted(by_num)}", w)
    for fi in mi.fields:
        if fi.number not in by_num:
            continue
        f, meta = by_num[fi.number]
        res.counters["comparisons"] += 1
        res.counters["feature:" + fi.cls_key().split("<")[0]] += 1
        ck = fi.cls_key()

        def bad(what, detail):
            res.violation("field", [what, ck], f"{name}: {mi.full_name}.{fi.name} (#{fi.number}, {ck}): {detail}", w)

        hint = hints.get(f.name)
        if fi.label == "map":
            if meta.proto_type != "map":
                bad("proto-type", f"proto_type {meta.proto_type!r}, expected 'map'")
                continue
            want = (fi.map_key.kind, fi.map_value.kind)
            if tuple(meta.map_types or ()) != want:
                bad("map-types", f"map_types {meta.map_types!r}, expected {want!r}")
            if getattr(hint, "__origin__", None) is not dict:
                bad("cardinality", f"type hint {hint!r} is not a Dict")
                continue
            k, v = hint.__args__
            if k is not PY_OF.get(fi.map_key.kind):
                bad("python-type", f"map key type {k!r}")
            _check_py(b, fi.map_value, v, bad, "map value ")
            continue
        if meta.proto_type != fi.kind:
            bad("proto-type", f"proto_type {meta.proto_type!r}, expected {fi.kind!r}")
        if (meta.group or None) != (fi.group if fi.label == "oneof" else None):
            bad("oneof-group", f"group {meta.group!r}, expected {fi.group if fi.label == 'oneof' else None!r}")
        if fi.label == "optional" and not meta.optional:
            bad("cardinality", "proto3 optional field without optional=True")
        if fi.label in ("singular", "repeated") and meta.optional:
            bad("cardinality", "optional=True on a non-optional field")
        wrapped = fi.wkt.split(":")[1] if (fi.wkt or "").startswith("wrapper:") else None
        if (meta.wraps or None) != wrapped:
            bad("wrapper", f"wraps {meta.wraps!r}, expected {wrapped!r}")
        if fi.label == "repeated":
            if getattr(hint, "__origin__", None) is not list:
                bad("cardinality", f"type hint {hint!r} is not a List")
                continue
            _check_py(b, fi, hint.__args__[0], bad, "element ")
        else:
            if getattr(hint, "__origin__", None) in (list, dict):
                bad("cardinality", f"type hint {hint!r} is a container for a non-repeated field")
                continue
            inner, opt = _strip_optional(hint)
            if fi.label == "optional" and not opt:
                bad("cardinality", f"type hint {hint!r} of a proto3 optional field is not Optional")
            if wrapped and not opt:
                bad("wrapper", f"type hint {hint!r} of a wrapper field is not Optional")
            _check_py(b, fi, inner, bad, "")


def _check_py(b, fi, t, bad0, what):
    def bad(kind, detail):
        # an annotation that resolved to a dataclasses.Field (or contains one) was evaluated in a class body where a
        # field named like a builtin type shadows that type
        if "Field(name=" in repr(t):
            kind = "python-type-shadowed-by-builtin-named-field"
        bad0(kind, detail)

    if fi.wkt == "timestamp":
        if t is not datetime:
            bad("python-type", f"{what}type {t!r}, expected datetime")
    elif fi.wkt == "duration":
        if t is not timedelta:
            bad("python-type", f"{what}type {t!r}, expected timedelta")
    elif (fi.wkt or "").startswith("wrapper:"):
        inner, _ = _strip_optional(t)
        if inner is not PY_OF.get(fi.wkt.split(":")[1]):
            bad("python-type", f"{what}type {t!r} for wrapper of {fi.wkt}")
    elif fi.kind == "enum":
        try:
            if t is not b.bp_enum(fi.type_name):
                bad("python-type", f"{what}type {t!r}, expected the class of {fi.type_name}")
        except BuildError as e:
            bad("python-type", f"{what}enum class missing: {e}")
    elif fi.kind == "message":
        try:
            if t is not b.bp_class(fi.type_name):
                bad("python-type", f"{what}type {t!r}, expected the class of {fi.type_name}")
        except BuildError as e:
            bad("python-type", f"{what}message class missing: {e}")
    elif t is not PY_OF.get(fi.kind):
        bad("python-type", f"{what}type {t!r}, expected {PY_OF.get(fi.kind)!r}")


def run_program(protos, name, res: Result, w, each_first: bool = False, cmdline: str = "all"):
    b = Build(protos, cmdline=cmdline)
    try:
        try:
            b.run_protoc()
        except BuildError as e:
            if e.stage in ("plugin", "protoc-timeout"):
                ok, detail = b.protoc_accepts()
                if ok:
                    res.counters["programs"] += 1
                    res.violation("generate", ["plugin-failed", _last_exc(e.detail)], f"{name}: plugin failed: {e.detail[-900:]}", w)
                    return
            res.discards["protoc-rejected-schema"] += 1
            res.extra.setdefault("discard_examples", []).append(f"{name}: {e.detail[-200:]}")
            return
        b.load_descriptors()
        res.extra["plugin_reach"] = sorted(set(res.extra.get("plugin_reach", [])) | set(b.plugin_reach()))[:400]
        try:
            b.import_all()
        except BuildError as e:
            res.counters["programs"] += 1
            res.violation("import", ["generated-package-does-not-import", _last_exc(e.detail)], f"{name}: {e.detail[-900:]}", w)
            return
        if each_first:
            # import order must not matter: every package imported first in a fresh interpreter
            for pkg, err in b.import_each_first():
                res.violation("import", ["generated-package-does-not-import", "when-imported-first:" + _last_exc(err)],
                              f"{name}: package {pkg or '(root)'} imported first in a fresh interpreter: {err[-700:]}", w)
            res.counters["packages_imported_first"] += len(b.user_packages())
        check_program(b, res, w, name)
        if len(res.samples) < 2:
            res.sample({"program": name, "files": sorted(protos), "messages": len(b.user_messages()),
                        "enums": len([e for e in b.enums if not e.startswith('.google')]), "services": len(b.services)})
    except Exception as e:
        res.inconclusive.append(f"oracle crashed on {name}: {type(e).__name__}: {e}\n{traceback.format_exc()[-1500:]}")
    finally:
        b.cleanup()


def _last_exc(detail: str) -> str:
    import re

    m = re.findall(r"^(\w+(?:Error|Exception))\b", detail, flags=re.M)
    return m[-1] if m else "unknown"


GEN_OPTS = {"names": "hostile", "wkt_plain": True, "hostile_comments": True}


def run_shard(shard) -> Result:
    res = Result()
    k = shard["kind"]
    if k == "gen":
        for s in shard["seeds"]:
            it = {"kind": "gen", "seed": s, "opts": GEN_OPTS}
            run_program(corpus.item_protos(it), f"gen:{s}", res, {"item": it})
    elif k == "inputs":
        for d in shard["dirs"]:
            if d in INPUTS_OUTSIDE:
                res.discards["inputs-outside-quantifier:" + d] += 1
                continue
            it = {"kind": "inputs", "dir": d}
            run_program(corpus.item_protos(it), f"inputs:{d}", res, {"item": it})
    elif k == "matrix":
        run_program(corpus.matrix_protos(), "matrix", res, {"item": {"kind": "matrix"}})
    elif k == "features":
        run_program(corpus.feature_protos(), "features", res, {"item": {"kind": "features"}})
        run_program(corpus.feature_protos(apart=True), "features:apart", res, {"item": {"kind": "features", "apart": True}})
    elif k == "extra":
        it = {"kind": "extra", "name": shard["name"]}
        if shard.get("cmdline"):
            it["cmdline"] = shard["cmdline"]
        run_program(corpus.item_protos(it), corpus.item_name(it), res, {"item": it}, each_first=True, cmdline=it.get("cmdline", "all"))
        if res.discards.get("protoc-rejected-schema"):  # a hand-written set protoc rejects is a harness bug, never a silent skip
            res.inconclusive.append(f"hand-written set {shard['name']} rejected by protoc: {res.extra.get('discard_examples')}")
    elif k == "bundled":
        check_bundled(res)
    total = res.counters.get("programs", 0) + sum(v for kk, v in res.discards.items() if kk == "protoc-rejected-schema")
    if total and res.discards.get("protoc-rejected-schema", 0) > max(1, 0.1 * total):
        res.inconclusive.append(f"too many schemas rejected by protoc itself: {res.discards['protoc-rejected-schema']}/{total}")
    return res


def check_bundled(res: Result):
    """betterproto.lib.std.google.protobuf[.compiler] vs the reference's own descriptors"""
    import importlib

    from google.protobuf import (any_pb2, api_pb2, descriptor_pb2, duration_pb2, empty_pb2, field_mask_pb2,
                                 source_context_pb2, struct_pb2, timestamp_pb2, type_pb2, wrappers_pb2)
    from google.protobuf.compiler import plugin_pb2

    import betterproto

    libs = {"google.protobuf": importlib.import_module("betterproto.lib.std.google.protobuf"),
            "google.protobuf.compiler": importlib.import_module("betterproto.lib.std.google.protobuf.compiler")}
    files = [any_pb2, api_pb2, descriptor_pb2, duration_pb2, empty_pb2, field_mask_pb2, source_context_pb2, struct_pb2,
             timestamp_pb2, type_pb2, wrappers_pb2, plugin_pb2]
    res.evaluations += 1
    res.distinct.add("bundled")
    for mod in files:
        fdp = descriptor_pb2.FileDescriptorProto()
        mod.DESCRIPTOR.CopyToProto(fdp)
        lib = libs.get(fdp.package)
        if lib is None:
            continue

        def walk(m, prefix):
            flat = prefix + m.name
            yield flat, m
            for n in m.nested_type:
                if not n.options.map_entry:
                    yield from walk(n, flat)

        for top in fdp.message_type:
            for flat, m in walk(top, ""):
                w = {"kind": "bundled", "message": f"{fdp.package}.{flat}"}
                cls = getattr(lib, flat, None)
                if cls is None:
                    # classes the bundled library does not define are not "shared"
                    res.counters["bundled_messages_not_in_lib"] += 1
                    continue
                res.counters["bundled_messages"] += 1
                by_num = {}
                for f in dataclasses.fields(cls):
                    meta = f.metadata.get("betterproto")
                    if meta:
                        by_num[meta.number] = (f, meta)
                entries = {n.name for n in m.nested_type if n.options.map_entry}

                def _key(nm):
                    return nm.rstrip("_").replace("_", "").lower()

                by_name = {_key(f.name): meta.number for f, meta in by_num.values()}
                for fd in m.field:
                    # a field both sides know BY NAME must carry the same number (numbers are what the wire uses)
                    if _key(fd.name) in by_name and by_name[_key(fd.name)] != fd.number:
                        res.counters["comparisons"] += 1
                        res.violation("bundled", ["number-differs", TYPE_NAMES[fd.type]],
                                      f"{fdp.package}.{flat}.{fd.name}: bundled class says #{by_name[_key(fd.name)]}, descriptor says #{fd.number}", w)
                    if fd.number not in by_num:
                        res.counters["bundled_fields_not_in_lib"] += 1
                        continue
                    f, meta = by_num[fd.number]
                    if _key(f.name) != _key(fd.name):
                        res.violation("bundled", ["name-differs", TYPE_NAMES[fd.type]],
                                      f"{fdp.package}.{flat} #{fd.number}: bundled class calls it {f.name!r}, descriptor {fd.name!r}", w)
                    res.counters["bundled_fields"] += 1
                    res.counters["comparisons"] += 1
                    kind = TYPE_NAMES[fd.type]
                    is_map = kind == "message" and fd.type_name.split(".")[-1] in entries
                    want = "map" if is_map else kind
                    if meta.proto_type != want:
                        res.violation("bundled", ["proto-type", want], f"{fdp.package}.{flat}.{fd.name} (#{fd.number}): proto_type {meta.proto_type!r}, descriptor says {want!r}", w)
                    try:
                        hint = hints_of(cls)[f.name]
                        is_list = getattr(hint, "__origin__", None) is list
                        if (fd.label == 3 and not is_map) != is_list:
                            res.violation("bundled", ["cardinality", want], f"{fdp.package}.{flat}.{fd.name}: repeated={fd.label == 3} but hint {hint!r}", w)
                    except Exception as e:
                        res.violation("bundled", ["type-hints-raised:" + type(e).__name__, want], f"{fdp.package}.{flat}.{f.name}: {e!r}", w)
                extra = set(by_num) - {fd.number for fd in m.field}
                if extra:
                    # not shared with this version of the descriptor (the bundled classes were generated
                    # from another descriptor.proto revision): recorded, not judged
                    res.counters["bundled_fields_only_in_lib"] += len(extra)
        for e in fdp.enum_type:
            cls = getattr(lib, e.name, None)
            if cls is None:
                continue
            have = {int(mm) for mm in cls.__members__.values()}
            for v in e.value:
                if v.number not in have:
                    res.counters["bundled_enum_values_not_in_lib"] += 1  # newer revision of the .proto: not shared
                    continue
                res.counters["comparisons"] += 1
                res.counters["bundled_enum_values"] += 1
    res.extra["exhaustive_bundled"] = True
    res.sample({"bundled": "every message of descriptor.proto, plugin.proto and the well-known types vs betterproto.lib.std"})


def replay(w):
    res = Result()
    if w.get("kind") == "bundled":
        check_bundled(res)
    else:
        run_program(corpus.item_protos(w["item"]), corpus.item_name(w["item"]), res, w, each_first=w["item"].get("kind") == "extra", cmdline=w["item"].get("cmdline", "all"))
    return res.violations


RULE += ' Extra sets include rare constructs (custom options via extend at file level and inside a message, reserved ranges and names, json_name, packed=false, import public, field number 2**29-1), maps named alike modulo underscores and case, user messages named like a synthesized map entry, packages split over files with and without typing constructs, a module beyond 64 KiB with a 70-field message.'
