"""C07 Oneof exclusivity holds after any history of operations."""
from __future__ import annotations

import copy
import itertools
import pickle
import random
import traceback

from .. import corpus, monitors, spec
from ..build import BuildError
from ..core import Result
from ..values import BP, NAN, REF, Gen, attr_names, tree_from_json, tree_to_json
from .c06 import _json_leaf

PROP = "C07"
LEVEL = "exploration"
RULE = ("operation histories over messages with several oneof groups, checked after EVERY operation against a shadow "
        "model sel[group] (updated at the client boundary): which_one_of names the member set last, reading any other "
        "member raises AttributeError, the wire (split by the spec codec) and to_dict contain that member and no other "
        "member of the group. Operations: construct with kwargs (0..2 members per group), set member to default / "
        "non-default, set a non-oneof field, in-place mutation inside a selected message member, parse of bytes carrying "
        "0..n members in any order onto a fresh or the existing message, from_dict (instance form: several members in "
        "dict order; class form), copy, deepcopy, pickle round trip. Exhaustive over all histories up to a fixed length "
        "on a fixed 2-group alphabet of the matrix schema + seeded random histories (length 1..12) on matrix and G-schema "
        "types. About 40% of the random histories run IN PLACE on a child that lives in a plain field of a holder message (never assigned at first): the selection must also be what the holder's own parse(bytes(holder)) shows. Message members are set to a fresh Sub() as well as to a received empty one. distinct = distinct operation-kind sequences (with member identities).")
ASSUMPTIONS = [
    "model choices confirmed against the tree by probes: several members of one group in constructor kwargs -> the declaration-last one; "
    "instance from_dict -> dict order decides; parse -> last member on the wire wins",
    "a message-typed member is never sent twice in one parse (merge semantics are outside the property)",
    "ruff is replaced by an identity stand-in when the plugin formats its output",
]
FLOORS = {"quick": {"histories": 3000, "ops_checked": 9000}, "thorough": {"histories": 150000, "ops_checked": 500000}}
ANCHORS = ['Message.__setattr__', 'Message.__getattribute__', 'Message.__post_init__', 'Message._include_default_value_for_oneof']
CONTRACTS = ["oneof", "bytes"]


def plan(tier, seed):
    shards = []
    depth = 2 if tier == "quick" else 3
    nparts = 4 if tier == "quick" else 16
    for p in range(nparts):
        shards.append({"kind": "exhaustive", "depth": depth, "part": [p, nparts]})
    n = 250 if tier == "quick" else 6000
    for i in range(8 if tier == "quick" else 16):
        shards.append({"kind": "random", "item": {"kind": "matrix"}, "seed": seed * 977 + i, "n": n})
    for i in range(6 if tier == "quick" else 40):
        shards.append({"kind": "random", "item": {"kind": "gen", "seed": seed * 100003 + i, "opts": {"services": False}},
                       "seed": seed * 977 + 100 + i, "n": n // 2})
    # the same histories on the pydantic variant of the generated classes (constructing with two members of a
    # group is rejected there by the generated validator, so such constructions are not generated)
    for i in range(2 if tier == "quick" else 8):
        shards.append({"kind": "random", "item": {"kind": "matrix"}, "opts": "pydantic_dataclasses", "seed": seed * 977 + 500 + i, "n": n // 2})
    shards.append({"kind": "w0"})
    return shards


class Subject:
    def __init__(self, b, mi, holder=None):
        self.b, self.mi = b, mi
        self.holder = None
        if holder:
            # the subject lives inside another message, in a plain message field that is never assigned at first:
            # operations are applied to the lazily created child in place (holder.child.member = ...), and the
            # selection must also survive a round trip of the HOLDER
            hmi = b.msgs[holder[0]]
            self.holder_cls = b.bp_class(hmi.full_name)
            self.h_attr = attr_names(self.holder_cls)[holder[1]]
        self.bp, self.ref = BP(b), REF(b)
        self.cls = b.bp_class(mi.full_name)
        self.names = attr_names(self.cls)
        self.group_of = {n: g for g, ms in mi.oneofs.items() for n in ms}
        self.m = self.cls()
        self.sel = {g: None for g in mi.oneofs}
        self.val = {}
        self.bystanders = []
        if holder:
            self.holder = self.holder_cls()
            self.m = getattr(self.holder, self.h_attr)

    # --- helpers
    def py(self, num, v):
        return self.bp.py_leaf(self.mi.field(num), v, "ctor")

    def record(self, num, v) -> bytes:
        r = self.ref.make(self.mi, {num: v})
        return r.SerializeToString()

    # --- operations (each returns None or raises to signal an SUT exception)
    def apply(self, op):
        k = op["op"]
        if k == "ctor":
            kw = {}
            new_sel = {g: None for g in self.mi.oneofs}
            for num, v in op["members"]:
                kw[self.names[num]] = self.py(num, v)
            # several members of one group in one constructor call: "set last" is not defined by the property
            # (declaration order today); the model accepts any ONE of the given members, decided by observation
            given = {}
            for num, v in op["members"]:
                given.setdefault(self.group_of[num], []).append(num)
            self.m = self.cls(**kw)
            import betterproto

            for g, nums in given.items():
                if len(nums) == 1:
                    new_sel[g] = nums[0]
                else:
                    name = betterproto.which_one_of(self.m, g)[0]
                    pick = [n for n in nums if self.names[n] == name]
                    new_sel[g] = pick[0] if pick else nums[-1]
            self.sel = new_sel
        elif k == "set":
            setattr(self.m, self.names[op["num"]], self.py(op["num"], op["val"]))
            self.sel[self.group_of[op["num"]]] = op["num"]
        elif k == "setplain":
            fi = op["num"]
            setattr(self.m, self.names[fi], self.py(fi, op["val"]))
        elif k == "inplace":
            num = op["num"]
            if self.sel.get(self.group_of[num]) != num:
                return "skipped"
            sub = getattr(self.m, self.names[num])
            sub_mi = self.b.msgs[self.mi.field(num).type_name]
            tgt = next((f for f in sub_mi.fields if f.label == "singular" and f.kind in ("int32", "int64", "string", "bool", "sint32")), None)
            if tgt is None:
                return "skipped"
            setattr(sub, attr_names(type(sub))[tgt.number], {"string": "x", "bool": True}.get(tgt.kind, 7))
        elif k == "parse":
            data = b"".join(self.record(num, v) for num, v in op["records"])
            if op["fresh"]:
                self.m = self.cls().parse(data)
                self.sel = {g: None for g in self.mi.oneofs}
            else:
                self.m.parse(data)
            for num, v in op["records"]:
                if num in self.group_of:
                    self.sel[self.group_of[num]] = num
        elif k == "from_dict":
            d = {}
            for num, v in op["members"]:
                d[self.names[num]] = _json_leaf(self.b, self.mi.field(num), v)
            if op.get("nulls"):
                # JSON null for other members: "not set" -- it never selects a member and never unselects one
                given = {n for n, _ in op["members"]}
                for n in sorted(self.group_of):
                    if n not in given and (n + len(op["members"])) % 3 == 0:
                        d = {self.names[n]: None, **d} if n % 2 else {**d, self.names[n]: None}
            if op["form"] == "class":
                self.m = self.cls.from_dict(d)
                self.sel = {g: None for g in self.mi.oneofs}
            else:
                self.m.from_dict(d)
            for num, v in op["members"]:
                if num in self.group_of:
                    self.sel[self.group_of[num]] = num
        elif k in ("copy", "deepcopy", "pickle"):
            # the copy becomes the subject; the original stays around as a bystander whose
            # selection must not change when the copy is operated on
            self.bystanders = (self.bystanders + [(self.m, dict(self.sel))])[-2:]
            if k == "copy":
                self.m = copy.copy(self.m)
            elif k == "deepcopy":
                self.m = copy.deepcopy(self.m)
            else:
                self.m = pickle.loads(pickle.dumps(self.m))
        else:
            raise KeyError(k)
        return None

    def sync_holder(self):
        if self.holder is not None and getattr(self.holder, self.h_attr) is not self.m:
            setattr(self.holder, self.h_attr, self.m)

    def observe(self):
        out = self._observe(self.m, self.sel, "")
        if self.holder is not None and not out:
            try:
                h2 = self.holder_cls().parse(bytes(self.holder))
                out += self._observe(getattr(h2, self.h_attr), self.sel, "via-holder:")
            except Exception as e:
                out.append(("holder-roundtrip-raised:" + type(e).__name__, "*", repr(e)))
        for obj, sel in self.bystanders:
            out += self._observe(obj, sel, "bystander:")
        return out

    def _observe(self, m, sel_model, prefix):
        """list of (failure kind, group, detail)"""
        import betterproto

        out = []
        try:
            data = bytes(m)
            wire = [r.number for r in spec.read_records(data)]
        except Exception as e:
            return [("bytes-raised:" + type(e).__name__, "*", repr(e))]
        try:
            d = m.to_dict(casing=betterproto.Casing.SNAKE)
        except Exception as e:
            d = None
            out.append(("to_dict-raised:" + type(e).__name__, "*", repr(e)))
        try:
            dc = m.to_dict()  # default casing (camelCase keys)
        except Exception as e:
            dc = None
            out.append(("to_dict-raised:" + type(e).__name__, "*", repr(e)))
        for g, members in self.mi.oneofs.items():
            want = sel_model[g]
            want_name = self.names[want] if want else ""
            try:
                name, _ = betterproto.which_one_of(m, g)
            except Exception as e:
                out.append(("which_one_of-raised:" + type(e).__name__, g, repr(e)))
                continue
            if name != want_name:
                out.append((prefix + "which_one_of-wrong", g, f"which_one_of={name!r} model={want_name!r}"))
            for n in members:
                nm = self.names[n]
                try:
                    getattr(m, nm)
                    readable = True
                except AttributeError:
                    readable = False
                if n == want and not readable:
                    out.append((prefix + "selected-member-unreadable", g, nm))
                if n != want and readable:
                    out.append((prefix + "unselected-member-readable", g, nm))
            on_wire = [n for n in wire if n in members]
            if set(on_wire) != ({want} if want else set()):
                out.append((prefix + "wire-members-wrong", g, f"on wire {on_wire} model {want}"))
            if d is not None:
                keys = {self.names[n].rstrip("_"): n for n in members}
                present = [keys[k] for k in d if k in keys]
                if set(present) != ({want} if want else set()):
                    out.append((prefix + "to_dict-members-wrong", g, f"in dict {present} model {want}"))
            if dc is not None:
                # camelCase keys: matched to members by their letters and digits only (no re-implementation of the casing)
                norm = lambda s_: s_.replace("_", "").lower()
                ckeys = {norm(self.names[n]): n for n in members}
                present = [ckeys[norm(k)] for k in dc if norm(k) in ckeys]
                if set(present) != ({want} if want else set()):
                    out.append((prefix + "to_dict-camel-members-wrong", g, f"in dict {present} model {want}"))
        return out


def op_kind(op) -> str:
    k = op["op"]
    if k == "set":
        return f"set:{op['num']}:{'d' if op.get('default') else 'n'}"
    if k in ("ctor", "from_dict"):
        return f"{k}:{op.get('form', '')}:{[n for n, _ in op['members']]}"
    if k == "parse":
        return f"parse:{'fresh' if op['fresh'] else 'onto'}:{[n for n, _ in op['records']]}"
    if k in ("inplace", "setplain"):
        return f"{k}:{op['num']}"
    return k


def run_history(b, mi, ops, res: Result, w_base):
    s = Subject(b, mi, w_base.get("holder"))
    res.note("histories")
    if w_base.get("holder"):
        res.note("histories_inside_a_holder")
    res.distinct.add("|".join(op_kind(o) for o in ops) + "@" + mi.full_name)
    for i, op in enumerate(ops):
        w = dict(w_base, msg=mi.full_name, ops=[_op_json(o) for o in ops[: i + 1]])
        monitors.set_context(w)
        try:
            r = s.apply(op)
        except Exception as e:
            res.violation("op-raised", [op["op"], _member_kind(mi, op), "raised:" + type(e).__name__],
                          f"{mi.full_name}: history {[op_kind(o) for o in ops[:i + 1]]}: {e!r}\n{traceback.format_exc()[-500:]}", w)
            return
        if r == "skipped":
            continue
        s.sync_holder()
        res.note("ops_checked")
        res.note("op:" + op["op"])
        fails = s.observe()
        for kind, g, detail in fails:
            prev = ops[i - 1]["op"] if i else "start"
            res.violation("exclusivity", [kind, op["op"], _member_kind(mi, op), "after:" + prev],
                          f"{mi.full_name}: after history {[op_kind(o) for o in ops[:i + 1]]}: {kind} in group {g}: {detail}", w)
        if fails:
            return


def _member_kind(mi, op) -> str:
    nums = []
    if "num" in op:
        nums = [op["num"]]
    elif "members" in op:
        nums = [n for n, _ in op["members"]]
    elif "records" in op:
        nums = [n for n, _ in op["records"]]
    ks = []
    for n in nums:
        try:
            ks.append(mi.field(n).cls_key())
        except KeyError:
            pass
    if len(ks) > 1:
        return "multi:" + "+".join(sorted(set(k.split("/")[0] for k in ks)))[:60]
    return ks[0] if ks else "-"


def _op_json(op):
    o = dict(op)
    for key in ("members", "records"):
        if key in o:
            o[key] = [[n, tree_to_json(v)] for n, v in o[key]]
    if "val" in o:
        o["val"] = tree_to_json(o["val"])
    return o


def _op_from_json(o):
    op = dict(o)
    for key in ("members", "records"):
        if key in op:
            op[key] = [(n, tree_from_json(v)) for n, v in op[key]]
    if "val" in op:
        op["val"] = tree_from_json(op["val"])
    return op


# ---------------------------------------------------------------------------
# exhaustive alphabet on .vf.matrix.Oneofs

def alphabet(b):
    mi = b.msgs[".vf.matrix.Oneofs"]
    A = []
    mem = {3: (0, 5), 14: ("", "s"), 18: ({}, {1: 3}), 31: (0, -1), 32: ("", "t")}
    for n, (d, nd) in mem.items():
        A.append({"op": "set", "num": n, "val": d, "default": True})
        A.append({"op": "set", "num": n, "val": nd})
    A.append({"op": "setplain", "num": 30, "val": 9})
    A.append({"op": "inplace", "num": 18})
    A.append({"op": "parse", "fresh": True, "records": [(3, 1), (14, "z")]})
    A.append({"op": "parse", "fresh": True, "records": [(14, "z"), (31, 2), (3, 0)]})
    A.append({"op": "parse", "fresh": False, "records": [(32, "")]})
    A.append({"op": "parse", "fresh": False, "records": [(18, {})]})
    A.append({"op": "parse", "fresh": False, "records": []})
    A.append({"op": "from_dict", "form": "instance", "members": [(3, 4), (14, "q")]})
    A.append({"op": "from_dict", "form": "instance", "members": [(14, ""), (3, 0)]})
    A.append({"op": "from_dict", "form": "class", "members": [(31, 0)]})
    A.append({"op": "ctor", "members": [(14, "k"), (3, 2)]})
    A.append({"op": "ctor", "members": [(18, {}), (32, "")]})
    A.append({"op": "ctor", "members": []})
    A += [{"op": "copy"}, {"op": "deepcopy"}, {"op": "pickle"}]
    return mi, A


def random_history(b, mi, rng, g: Gen, one_member_per_group: bool = False):
    members = [n for ms in mi.oneofs.values() for n in ms]
    plain = [f for f in mi.fields if f.label == "singular" and f.kind in ("int32", "string", "bool", "int64")]
    group_of = {n: gg for gg, ms in mi.oneofs.items() for n in ms}

    def val(n, default=None):
        fi = mi.field(n)
        if default is None:
            default = rng.random() < 0.4
        if default:
            if fi.wkt == "timestamp":
                return ("ts", 0, 0)
            if fi.wkt == "duration":
                return ("du", 0, 0)
            if (fi.wkt or "").startswith("wrapper:"):
                return {"bool": False, "string": "", "bytes": b"", "float": 0.0, "double": 0.0}.get(fi.wkt.split(":")[1], 0)
            if fi.kind == "message":
                return {}
            from ..values import default_of

            return default_of(fi)
        g.budget = 10
        return g.leaf(fi, 2, "mixed")

    ops = []
    for _ in range(rng.randint(1, 12)):
        r = rng.random()
        if r < 0.30:
            n = rng.choice(members)
            ops.append({"op": "set", "num": n, "val": val(n)})
        elif r < 0.36 and plain:
            f = rng.choice(plain)
            ops.append({"op": "setplain", "num": f.number, "val": {"string": "p", "bool": True}.get(f.kind, 3)})
        elif r < 0.42:
            msgm = [n for n in members if mi.field(n).kind == "message" and mi.field(n).wkt is None]
            if msgm:
                ops.append({"op": "inplace", "num": rng.choice(msgm)})
        elif r < 0.60:
            k = rng.randint(0, 4)
            recs, seen_msg = [], set()
            for _ in range(k):
                n = rng.choice(members)
                if mi.field(n).kind == "message" and mi.field(n).wkt is None:
                    if n in seen_msg:
                        continue
                    seen_msg.add(n)
                recs.append((n, val(n)))
            ops.append({"op": "parse", "fresh": rng.random() < 0.5, "records": recs})
        elif r < 0.72:
            form = rng.choice(["instance", "class"])
            ms, used = [], set()
            for _ in range(rng.randint(0, 3)):
                n = rng.choice(members)
                if form == "class" and group_of[n] in used:
                    continue
                if n in [x for x, _ in ms]:
                    continue
                used.add(group_of[n])
                ms.append((n, val(n)))
            ops.append({"op": "from_dict", "form": form, "members": ms, "nulls": rng.random() < 0.4})
        elif r < 0.80:
            ms, used = [], set()
            for _ in range(rng.randint(0, 3)):
                n = rng.choice(members)
                if one_member_per_group and group_of[n] in used:
                    continue
                if n not in [x for x, _ in ms]:
                    used.add(group_of[n])
                    ms.append((n, val(n)))
            ops.append({"op": "ctor", "members": ms})
        else:
            ops.append({"op": rng.choice(["copy", "deepcopy", "pickle"])})
    return ops


def run_shard(shard) -> Result:
    if shard.get("kind") == "w0":
        from ..w0 import run_w0

        return run_w0(PROP, CONTRACTS)
    res = Result()
    item = shard.get("item", {"kind": "matrix"})
    try:
        b = corpus.build_item(item, shard.get("opts", ""))
    except BuildError as e:
        res.inconclusive.append(f"SUT could not be built: {e.stage}: {e.detail[-400:]}")
        return res
    pyd = "pydantic" in shard.get("opts", "")
    try:
        monitors.install(CONTRACTS)
        if shard["kind"] == "exhaustive":
            mi, A = alphabet(b)
            k = 0
            total = 0
            for depth in range(1, shard["depth"] + 1):
                for hist in itertools.product(range(len(A)), repeat=depth):
                    k += 1
                    if k % shard["part"][1] != shard["part"][0]:
                        continue
                    total += 1
                    res.evaluations += 1
                    run_history(b, mi, [A[i] for i in hist], res, {"item": item})
            res.extra["exhaustive_alphabet_size"] = len(A)
            res.extra["exhaustive_depth"] = shard["depth"]
            res.counters["exhaustive_histories"] += total
            res.sample({"exhaustive": f"all histories of length <= {shard['depth']} over {len(A)} operations on .vf.matrix.Oneofs",
                        "example": [op_kind(A[i]) for i in (0, 11, 20)]})
        else:
            rng = random.Random(f"c07-{shard['seed']}")
            cands = [m for m in b.user_messages() if m.oneofs]
            if not cands:
                res.discards["schema-without-oneof"] += 1
                return res
            g = Gen(b, rng, max_depth=2)
            for _ in range(shard["n"]):
                mi = rng.choice(cands)
                ops = random_history(b, mi, rng, g, one_member_per_group=pyd)
                res.evaluations += 1
                if pyd:
                    res.note("pydantic_histories")
                wb = {"item": item, "opts": shard.get("opts", "")}
                holders = [(h.full_name, f.number) for h in b.user_messages() for f in h.fields
                           if f.label == "singular" and f.kind == "message" and f.type_name == mi.full_name and h.full_name != mi.full_name]
                if holders and rng.random() < 0.4:
                    wb["holder"] = list(rng.choice(holders))
                try:
                    run_history(b, mi, ops, res, wb)
                except Exception as e:
                    res.inconclusive.append(f"oracle crashed: {type(e).__name__}: {e}\n{traceback.format_exc()[-1200:]}")
                    break
                if len(res.samples) < 2:
                    res.sample({"type": mi.full_name, "history": [op_kind(o) for o in ops]})
        monitors.set_context(None)
        monitors.drain(res, PROP)
    finally:
        b.cleanup()
    return res


def replay(w):
    if w.get("kind") == "w0":
        from ..w0 import run_w0

        return run_w0(PROP, CONTRACTS).violations
    res = Result()
    b = corpus.build_item(w["item"], w.get("opts", ""))
    try:
        monitors.install(CONTRACTS)
        mi = b.msgs[w["msg"]]
        wb = {"item": w["item"], "opts": w.get("opts", "")}
        if w.get("holder"):
            wb["holder"] = w["holder"]
        run_history(b, mi, [_op_from_json(o) for o in w["ops"]], res, wb)
        monitors.drain(res, PROP)
    finally:
        b.cleanup()
    return res.violations
