"""C04 JSON / dict round trip: from_dict(to_dict(m)) and from_json(to_json(m)) give m."""
from __future__ import annotations

import json

from ..core import Result
from ..valuework import plan_items, replay_value, run_value_shard
from ..values import diff_signature, diff_trees
from .c01 import carrier_sig, isolate_deep as isolate

PROP = "C04"
LEVEL = "exploration"
RULE = ("the C01 population (matrix / random / maximal trees over matrix schema, G-schema sets, tests/inputs) x casing in "
        "{CAMEL, SNAKE} x path in {dict, JSON text} x form in {classmethod, instance}: to_dict must be json.dumps-able, "
        "and the rebuilt message must == the original and encode to the same bytes; failures are located by neutral-tree "
        "diff or, when a call raises, by one-field projections, and keyed (path, carrier kind/label, value class, failure, "
        "scope). distinct = distinct (schema, type, tree).")
ASSUMPTIONS = [
    "field names of the generated schemas are snake_case words, Python keywords and builtins (digit-bearing / camelCase names are C19's workload)",
    "float32-exact floats, aware microsecond datetimes, no lone surrogates",
    "ruff is replaced by an identity stand-in when the plugin formats its output",
]
FLOORS = {"quick": {"evaluations": 1500, "configs_checked": 12000}, "thorough": {"evaluations": 60000, "configs_checked": 480000}}
ANCHORS = ['Message.to_dict', 'Message._from_dict_init', 'Message.from_dict', 'camel_case', 'safe_snake_case', '_Timestamp.timestamp_to_json', '_Duration.delta_to_json']
CONTRACTS = ["bytes"]

CONFIGS = [(c, p, f) for c in ("CAMEL", "SNAKE") for p in ("dict", "json") for f in ("classmethod", "instance")]


def plan(tier, seed):
    return plan_items(tier, seed, n_gen_quick=8, n_gen_thorough=250, n_quick=80, n_thorough=500) + [{"kind": "bundled"}]


def roundtrip(cls, m, casing_name, path, form):
    """returns ('ok', m2) | ('fail', stage, excname, detail)"""
    import betterproto

    casing = getattr(betterproto.Casing, casing_name)
    try:
        d = m.to_dict(casing=casing)
    except Exception as e:
        return ("fail", "to_dict-raises", type(e).__name__, repr(e))
    try:
        text = json.dumps(d)
    except Exception as e:
        return ("fail", "json.dumps-raises", type(e).__name__, repr(e))
    if path == "json":
        try:
            text2 = m.to_json(casing=casing)
        except Exception as e:
            return ("fail", "to_json-raises", type(e).__name__, repr(e))
        try:
            if form == "classmethod":
                m2 = cls.from_dict(json.loads(text2))
            else:
                m2 = cls().from_json(text2)
        except Exception as e:
            return ("fail", "from_json-raises", type(e).__name__, repr(e))
    else:
        try:
            m2 = cls.from_dict(d) if form == "classmethod" else cls().from_dict(d)
        except Exception as e:
            return ("fail", "from_dict-raises", type(e).__name__, repr(e))
    return ("ok", m2)


def check_case(b, bp, ref, mi, tree, res: Result, w, rng):
    cls = b.bp_class(mi.full_name)
    found = {}  # (path, carrier..., failure) -> set of (casing, form)
    detail = {}
    configs = [tuple(w["config"])] if w.get("config") else CONFIGS
    for casing, path, form in configs:
        try:
            m = bp.make(mi, tree, "ctor")
            data = bytes(m)
        except Exception:
            res.note("unbuildable")  # C01 territory
            return
        res.note("configs_checked")
        out = roundtrip(cls, m, casing, path, form)
        keys = []
        if out[0] == "fail":
            stage, exc = out[1], out[2]

            def pred(t, casing=casing, path=path, form=form, stage=stage):
                o = roundtrip(cls, bp.make(mi, t, "ctor"), casing, path, form)
                return not (o[0] == "fail" and o[1] == stage)

            bad = isolate(b, mi, tree, pred)
            for fi, v in bad or [(None, None)]:
                cs = carrier_sig(b, fi, v) if fi is not None else ["combination", "?"]
                keys.append((path,) + tuple(cs) + (f"{stage}:{exc}",))
                detail[keys[-1]] = out[3]
        else:
            m2 = out[1]
            try:
                eq = (m2 == m)
                data2 = bytes(m2)
            except Exception as e:
                exc = type(e).__name__
                bad = isolate(b, mi, tree, lambda t, c=casing, pa=path, fo=form: _usable(cls, bp, mi, t, c, pa, fo))
                for fi, v in bad or [(None, None)]:
                    cs = carrier_sig(b, fi, v) if fi is not None else ["combination", "?"]
                    keys.append((path,) + tuple(cs) + (f"rebuilt-unusable:{exc}",))
                    detail[keys[-1]] = repr(e)
                eq, data2 = True, data
            if not eq or data2 != data:
                problems = []
                t1 = bp.norm(mi, bp.make(mi, tree, "ctor"))
                try:
                    t2 = bp.norm(mi, m2, problems)
                    ds = diff_trees(b, mi, t1, t2)
                except Exception as e:
                    ds = []
                    problems.append(("", f"unreadable:{type(e).__name__}"))
                for d in ds:
                    keys.append((path,) + tuple(diff_signature(b, d)))
                    detail[keys[-1]] = d.short()
                for p, what in problems:
                    keys.append((path, "decoded-type", what, "type"))
                    detail[keys[-1]] = f"{p}: {what}"
                if not ds and not problems:
                    what = "bytes-differ" if data2 != data else "unequal"
                    bad = isolate(b, mi, tree, lambda t, c=casing, pa=path, fo=form: _same(cls, bp, mi, t, c, pa, fo))
                    for fi, v in bad or [(None, None)]:
                        cs = carrier_sig(b, fi, v) if fi is not None else ["combination", "?"]
                        keys.append((path,) + tuple(cs) + (what + "-with-identical-fields",))
                        detail[keys[-1]] = f"{data.hex()[:120]} vs {data2.hex()[:120]}"
        for k in keys:
            found.setdefault(k, set()).add((casing, form))
    for k, cfgs in found.items():
        path = k[0]
        all_cfgs = {(c, f) for c, p, f in configs if p == path}
        if cfgs == all_cfgs:
            scope = "all"
        else:
            cas = {c for c, _ in cfgs}
            frm = {f for _, f in cfgs}
            scope = "/".join(sorted(cas) if len(cas) == 1 else []) + "|" + "/".join(sorted(frm) if len(frm) == 1 else [])
        c0, f0 = sorted(cfgs)[0]
        res.violation("roundtrip", list(k) + [scope],
                      f"{mi.full_name} [{path}; {sorted(cfgs)}]: {detail.get(k, '')}", dict(w, config=[c0, path, f0]))


def _usable(cls, bp, mi, t, casing, path, form):
    m = bp.make(mi, t, "ctor")
    o = roundtrip(cls, m, casing, path, form)
    if o[0] != "ok":
        return True
    o[1] == m
    bytes(o[1])
    return True


def _same(cls, bp, mi, t, casing, path, form):
    m = bp.make(mi, t, "ctor")
    o = roundtrip(cls, m, casing, path, form)
    return o[0] == "ok" and o[1] == m and bytes(o[1]) == bytes(m)


def run_bundled(shard=None) -> "Result":
    """the message classes the library ships (descriptor.proto, type.proto, api.proto, plugin.proto ... as bundled in
    betterproto.lib.std): one scalar / enum field at a time set to a non-default value, dict and JSON round trips in both
    casings.  Their attribute names are fixed in the shipped code (a field literally called `type`, `syntax`, `package`),
    whatever the plugin of this tree would call them today."""
    import dataclasses
    import importlib
    import json

    import betterproto
    from ..core import Result

    res = Result()
    samples = {betterproto.TYPE_STRING: "x", betterproto.TYPE_BOOL: True, betterproto.TYPE_BYTES: b"\x00\xff", betterproto.TYPE_DOUBLE: 1.5,
               betterproto.TYPE_FLOAT: 2.5, betterproto.TYPE_INT64: -(2 ** 53) - 1, betterproto.TYPE_UINT64: 2 ** 64 - 1}
    for k in (betterproto.TYPE_INT32, betterproto.TYPE_UINT32, betterproto.TYPE_SINT32, betterproto.TYPE_FIXED32, betterproto.TYPE_SFIXED32, betterproto.TYPE_ENUM):
        samples[k] = 3
    for k in (betterproto.TYPE_SINT64, betterproto.TYPE_FIXED64, betterproto.TYPE_SFIXED64):
        samples[k] = 2 ** 40 + 1
    for modname in ("betterproto.lib.std.google.protobuf", "betterproto.lib.std.google.protobuf.compiler"):
        mod = importlib.import_module(modname)
        for cname, cls in sorted(vars(mod).items()):
            if not (isinstance(cls, type) and issubclass(cls, betterproto.Message) and cls is not betterproto.Message and cls.__module__ == modname):
                continue
            if cls.to_dict is not betterproto.Message.to_dict or cls.from_dict.__func__ is not betterproto.Message.from_dict.__func__ if hasattr(cls.from_dict, "__func__") else False:
                continue  # Struct / Value / ListValue have a JSON form of their own (outside the grammar)
            for f in dataclasses.fields(cls):
                meta = betterproto.FieldMetadata.get(f)
                if meta.proto_type not in samples or meta.wraps:
                    continue
                is_list = "List[" in str(f.type)
                v = [samples[meta.proto_type]] if is_list else samples[meta.proto_type]
                w = {"kind": "bundled", "cls": modname + "." + cname, "field": f.name}
                try:
                    m = cls(**{f.name: v})
                    want = bytes(m)
                except Exception:
                    res.note("bundled-field-unbuildable")
                    continue
                res.evaluations += 1
                res.distinct.add(f"bundled:{cname}.{f.name}")
                res.note("bundled_fields")
                for casing_name in ("CAMEL", "SNAKE"):
                    casing = getattr(betterproto.Casing, casing_name)
                    try:
                        d = m.to_dict(casing=casing)
                        text = json.dumps(d)
                        backs = {"dict-instance": cls().from_dict(d), "dict-classmethod": cls.from_dict(d), "json-instance": cls().from_json(text)}
                    except Exception as e:
                        res.violation("bundled", [casing_name, meta.proto_type, "raised:" + type(e).__name__], f"{cname}.{f.name}: {e!r}", w)
                        continue
                    for how, back in backs.items():
                        if back != m or bytes(back) != want:
                            res.violation("bundled", [casing_name, meta.proto_type, "field-lost" if bytes(back) == b"" else "differs"],
                                          f"{modname}.{cname}.{f.name} = {v!r}: to_dict gives {d}, {how} gives back {back!r}", w)
                            break
    return res


def run_shard(shard):
    if shard.get("kind") == "bundled":
        return run_bundled(shard)
    return run_value_shard(shard, PROP, check_case, CONTRACTS)


def replay(w):
    if w.get("kind") == "bundled":
        return run_bundled().violations
    return replay_value(w, check_case, PROP, CONTRACTS)


RULE += " Also 'large' shards (one field per case with 127..70000 bytes / 31..2100 elements / 31..257 entries) and an 'after failures' shard."
