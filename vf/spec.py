"""Spec-level protobuf wire codec, written from the encoding document, sharing no code
with betterproto.  Used as an independent reference by the monitors.

Only integers and bytes: varints, zig-zag, tags, records.
"""
from __future__ import annotations

import struct
from typing import Iterator, List, NamedTuple, Optional, Tuple

MASK64 = (1 << 64) - 1

WT_VARINT, WT_I64, WT_LEN, WT_SGROUP, WT_EGROUP, WT_I32 = 0, 1, 2, 3, 4, 5


class WireError(Exception):
    pass


class Truncated(WireError):
    pass


def enc_varint(value: int, pad: int = 0) -> bytes:
    """Canonical base-128 encoding of value mod 2**64 (negatives as two's complement).

    pad > 0 appends that many redundant continuation groups (non-minimal encoding,
    still at most 10 bytes in total if the caller respects that)."""
    if value < -(1 << 63) or value > MASK64:
        raise ValueError("out of 64-bit range")
    value &= MASK64
    out = bytearray()
    while True:
        b = value & 0x7F
        value >>= 7
        if value:
            out.append(b | 0x80)
        else:
            out.append(b)
            break
    if pad:
        out[-1] |= 0x80
        out.extend([0x80] * (pad - 1))
        out.append(0x00)
    return bytes(out)


def varint_len(value: int) -> int:
    value &= MASK64
    n = 1
    while value >= 0x80:
        value >>= 7
        n += 1
    return n


def dec_varint(buf: bytes, pos: int = 0) -> Tuple[int, int]:
    """Returns (value, new_pos). Raises Truncated on premature end, WireError if > 10 bytes."""
    result = 0
    shift = 0
    n = 0
    while True:
        if pos >= len(buf):
            raise Truncated("varint truncated")
        b = buf[pos]
        pos += 1
        n += 1
        if n > 10:
            raise WireError("varint longer than 10 bytes")
        result |= (b & 0x7F) << shift
        shift += 7
        if not b & 0x80:
            return result, pos


def zigzag(n: int) -> int:
    return (n << 1) ^ (n >> 63) if n < 0 else n << 1


def unzigzag(u: int) -> int:
    return (u >> 1) ^ -(u & 1)


def to_signed(u: int, bits: int) -> int:
    u &= (1 << bits) - 1
    return u - (1 << bits) if u >> (bits - 1) else u


def enc_tag(number: int, wt: int, pad: int = 0) -> bytes:
    return enc_varint((number << 3) | wt, pad)


class Record(NamedTuple):
    number: int
    wt: int
    value: object  # int for varint, bytes for I32/I64/LEN, list[Record]-bytes for groups (raw)
    raw: bytes  # complete bytes of the record including tag
    start: int  # offset of the tag
    payload_start: int  # offset of payload (after tag and, for LEN, after the length)
    end: int


def read_records(buf: bytes, *, strict: bool = True) -> List[Record]:
    """Split a message encoding into top-level records.  strict: raise on anything the
    encoding document does not allow (field number 0, wire types 6/7, truncation,
    unbalanced groups)."""
    out: List[Record] = []
    pos = 0
    n = len(buf)
    while pos < n:
        start = pos
        key, pos = dec_varint(buf, pos)
        number, wt = key >> 3, key & 7
        if number == 0 and strict:
            raise WireError("field number 0")
        if wt == WT_VARINT:
            ps = pos
            v, pos = dec_varint(buf, pos)
            out.append(Record(number, wt, v, buf[start:pos], start, ps, pos))
        elif wt == WT_I64:
            if pos + 8 > n:
                raise Truncated("fixed64 truncated")
            out.append(Record(number, wt, buf[pos:pos + 8], buf[start:pos + 8], start, pos, pos + 8))
            pos += 8
        elif wt == WT_I32:
            if pos + 4 > n:
                raise Truncated("fixed32 truncated")
            out.append(Record(number, wt, buf[pos:pos + 4], buf[start:pos + 4], start, pos, pos + 4))
            pos += 4
        elif wt == WT_LEN:
            ln, pos = dec_varint(buf, pos)
            if pos + ln > n:
                raise Truncated("length-delimited payload truncated")
            out.append(Record(number, wt, buf[pos:pos + ln], buf[start:pos + ln], start, pos, pos + ln))
            pos += ln
        elif wt == WT_SGROUP:
            ps = pos
            pos = _skip_group(buf, pos, number)
            out.append(Record(number, wt, buf[ps:pos], buf[start:pos], start, ps, pos))
        elif wt == WT_EGROUP:
            raise WireError("unbalanced end-group")
        else:
            raise WireError(f"invalid wire type {wt}")
    return out


def _skip_group(buf: bytes, pos: int, number: int) -> int:
    n = len(buf)
    while True:
        if pos >= n:
            raise Truncated("group truncated")
        key, pos = dec_varint(buf, pos)
        num, wt = key >> 3, key & 7
        if wt == WT_VARINT:
            _, pos = dec_varint(buf, pos)
        elif wt == WT_I64:
            pos += 8
        elif wt == WT_I32:
            pos += 4
        elif wt == WT_LEN:
            ln, pos = dec_varint(buf, pos)
            pos += ln
        elif wt == WT_SGROUP:
            pos = _skip_group(buf, pos, num)
        elif wt == WT_EGROUP:
            if num != number:
                raise WireError("mismatched end-group")
            return pos
        else:
            raise WireError(f"invalid wire type {wt}")
        if pos > n:
            raise Truncated("group truncated")


def enc_record(number: int, wt: int, value, *, tag_pad: int = 0, len_pad: int = 0, val_pad: int = 0) -> bytes:
    t = enc_tag(number, wt, tag_pad)
    if wt == WT_VARINT:
        return t + enc_varint(value, val_pad)
    if wt == WT_I64:
        assert len(value) == 8
        return t + bytes(value)
    if wt == WT_I32:
        assert len(value) == 4
        return t + bytes(value)
    if wt == WT_LEN:
        return t + enc_varint(len(value), len_pad) + bytes(value)
    raise ValueError(wt)


def field_numbers_on_wire(buf: bytes) -> List[int]:
    return [r.number for r in read_records(buf)]


# scalar kinds -------------------------------------------------------------

VARINT_KINDS = ("int32", "int64", "uint32", "uint64", "sint32", "sint64", "bool", "enum")
I32_KINDS = ("fixed32", "sfixed32", "float")
I64_KINDS = ("fixed64", "sfixed64", "double")
LEN_KINDS = ("string", "bytes", "message")
SCALAR_KINDS = (
    "double", "float", "int32", "int64", "uint32", "uint64", "sint32", "sint64",
    "fixed32", "fixed64", "sfixed32", "sfixed64", "bool", "string", "bytes",
)
PACKABLE = VARINT_KINDS + I32_KINDS + I64_KINDS

_FMT = {"fixed32": "<I", "sfixed32": "<i", "float": "<f", "fixed64": "<Q", "sfixed64": "<q", "double": "<d"}


def wire_type_of(kind: str) -> int:
    if kind in VARINT_KINDS:
        return WT_VARINT
    if kind in I32_KINDS:
        return WT_I32
    if kind in I64_KINDS:
        return WT_I64
    return WT_LEN


def enc_scalar_payload(kind: str, value) -> bytes:
    """Payload bytes of one scalar (without tag; LEN kinds without the length)."""
    if kind in ("int32", "int64", "enum"):
        return enc_varint(int(value))
    if kind in ("uint32", "uint64"):
        return enc_varint(int(value))
    if kind == "bool":
        return enc_varint(1 if value else 0)
    if kind in ("sint32", "sint64"):
        return enc_varint(zigzag(int(value)))
    if kind in _FMT:
        return struct.pack(_FMT[kind], value)
    if kind == "string":
        return value.encode("utf-8")
    if kind == "bytes":
        return bytes(value)
    raise ValueError(kind)


def enc_scalar_field(number: int, kind: str, value) -> bytes:
    p = enc_scalar_payload(kind, value)
    wt = wire_type_of(kind)
    if wt == WT_LEN:
        return enc_tag(number, wt) + enc_varint(len(p)) + p
    return enc_tag(number, wt) + p


def dec_scalar_varint(kind: str, u: int):
    if kind == "int32":
        return to_signed(u, 32)
    if kind == "int64":
        return to_signed(u, 64)
    if kind == "enum":
        return to_signed(u, 32)
    if kind == "uint32":
        return u & 0xFFFFFFFF
    if kind == "uint64":
        return u & MASK64
    if kind == "sint32":
        return unzigzag(u & 0xFFFFFFFF)
    if kind == "sint64":
        return unzigzag(u & MASK64)
    if kind == "bool":
        return u != 0
    raise ValueError(kind)


def self_test() -> Optional[str]:
    """Cross-check this codec against google.protobuf's internal pure-python encoder /
    decoder helpers.  Returns None if fine, else a description (=> run is inconclusive)."""
    try:
        from google.protobuf.internal import encoder, decoder, wire_format
    except Exception as e:  # pragma: no cover
        return f"cannot import reference internals: {e!r}"
    vals = [0, 1, 127, 128, 300, 16383, 16384, 2**31 - 1, 2**31, 2**32 - 1, 2**32, 2**63 - 1, 2**63, 2**64 - 1]
    for v in vals:
        out = []
        encoder._VarintEncoder()(out.append, v, None)
        ref = b"".join(out)
        if ref != enc_varint(v):
            return f"varint mismatch for {v}"
        if dec_varint(ref, 0) != (v, len(ref)):
            return f"varint decode mismatch for {v}"
        if varint_len(v) != len(ref):
            return f"varint_len mismatch for {v}"
    for v in [-1, -2, -(2**31), -(2**63)]:
        out = []
        encoder._SignedVarintEncoder()(out.append, v, None)
        if b"".join(out) != enc_varint(v):
            return f"signed varint mismatch for {v}"
    for v in [0, -1, 1, -2, 2**31 - 1, -(2**31), 2**63 - 1, -(2**63)]:
        if wire_format.ZigZagEncode(v) != zigzag(v):
            return f"zigzag mismatch for {v}"
        if wire_format.ZigZagDecode(zigzag(v)) != v or unzigzag(zigzag(v)) != v:
            return f"unzigzag mismatch for {v}"
    return None
