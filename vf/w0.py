"""W0: the repository's own test-suite as an extra workload for the contract monitors."""
from __future__ import annotations

import json
import os
import subprocess
import sys
import tempfile

from . import VERIF_DIR, env
from .core import Result


def run_w0(prop: str, contracts) -> Result:
    res = Result()
    os.makedirs(env.WORK, exist_ok=True)
    fd, out = tempfile.mkstemp(prefix="w0_", suffix=".json", dir=env.WORK)
    os.close(fd)
    e = env.child_env({"VERIF_W0_OUT": out, "VERIF_W0_CONTRACTS": ",".join(contracts)})
    cmd = [sys.executable, "-m", "pytest", "-q", "-x", "--no-header", "-p", "no:cacheprovider", "-p", "vf.pytest_monitors",
           "--timeout=600", "--continue-on-collection-errors", "-W", "ignore", "tests"]
    cmd.remove("-x")
    try:
        r = subprocess.run(cmd, cwd=env.REPO, env=e, capture_output=True, text=True, timeout=900)
    except subprocess.TimeoutExpired:
        res.inconclusive.append("W0: the repository's test-suite did not finish under the monitors")
        return res
    try:
        with open(out) as fh:
            d = json.load(fh)
    except Exception:
        res.note("w0-no-output")  # e.g. pytest could not start on a damaged tree: other shards decide
        return res
    finally:
        try:
            os.remove(out)
        except OSError:
            pass
    res.evaluations += 1
    res.distinct.add("w0:repository-tests")
    res.counters["w0_tests_collected"] += int(d.get("tests_collected") or 0)
    for k, v in d["evals"].items():
        res.counters["w0-contract:" + k] += v
    for v in d["violations"]:
        if v["prop"] == prop:
            res.violations.append({"sub": "w0:" + v["sub"], "sig": ["w0"] + v["sig"], "msg": "[repository tests under monitors] " + v["msg"],
                                   "witness": {"kind": "w0"}, "count": v.get("count", 1)})
    res.sample({"w0": "repository test-suite under contract monitors", "tests_collected": d.get("tests_collected"),
                "contract_evaluations": d["evals"]})
    return res
