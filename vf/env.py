"""Selects the tree under test and asserts that it really is the one imported."""
from __future__ import annotations

import os
import sys

from . import VERIF_DIR

REPO = os.environ.get("VERIF_REPO", "/repo")
SRC = os.path.join(REPO, "src")
WORK = os.environ.get("VERIF_WORK", os.path.join(VERIF_DIR, ".work"))
TOOLS_BIN = os.path.join(VERIF_DIR, "tools", "bin")
GUARD = "BETTERPROTO_VERIF"


def activate() -> None:
    """Put the tree under test first on sys.path and check the import resolves there."""
    os.environ[GUARD] = "1"
    if SRC in sys.path:
        sys.path.remove(SRC)
    sys.path.insert(0, SRC)
    import betterproto  # noqa

    where = os.path.realpath(betterproto.__file__)
    if not where.startswith(os.path.realpath(SRC) + os.sep):
        raise SystemExit(f"INCONCLUSIVE reason=betterproto imported from {where}, not from {SRC}")
    try:
        import betterproto_rust_codec  # noqa

        raise SystemExit("INCONCLUSIVE reason=betterproto_rust_codec is importable; anchors would be bypassed")
    except ModuleNotFoundError:
        pass


def child_env(extra: dict | None = None) -> dict:
    env = dict(os.environ)
    env["PYTHONHASHSEED"] = "0"
    env["PYTHONDONTWRITEBYTECODE"] = "1"
    env["VERIF_REPO"] = REPO
    env[GUARD] = "1"
    pp = [SRC, VERIF_DIR]
    env["PYTHONPATH"] = os.pathsep.join(pp)
    env["PATH"] = TOOLS_BIN + os.pathsep + env.get("PATH", "")
    env.pop("BETTERPROTO_DUMP", None)
    if extra:
        env.update(extra)
    return env
