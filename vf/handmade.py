"""Message and enum classes built directly with betterproto's public field API
(`betterproto.*_field`, `betterproto.Enum`, `@dataclass`) -- no plugin involved -- mirroring the
messages of an existing Build field by field (same numbers, kinds, labels, groups), so that the
value-level monitors also run on "message types built from the public field API"."""
from __future__ import annotations

import dataclasses
import sys
import types
import typing
from datetime import datetime, timedelta

from .build import Build

_mod_counter = [0]
PY = {"double": float, "float": float, "bool": bool, "string": str, "bytes": bytes}
for _k in ("int32", "int64", "uint32", "uint64", "sint32", "sint64", "fixed32", "fixed64", "sfixed32", "sfixed64"):
    PY[_k] = int


def install(b: Build) -> None:
    """replace the plugin-generated classes of `b` by hand-built equivalents"""
    import betterproto

    _mod_counter[0] += 1
    mod = types.ModuleType(f"vf_handmade_{_mod_counter[0]}")
    sys.modules[mod.__name__] = mod
    mod.__dict__.update({"typing": typing, "datetime": datetime, "timedelta": timedelta, "List": typing.List,
                         "Dict": typing.Dict, "Optional": typing.Optional})
    names = {}
    # enums
    enum_cls = {}
    for i, (full, ei) in enumerate(b.enums.items()):
        if full.startswith(".google.protobuf."):
            continue
        nm = f"HE{i}_" + full.strip(".").replace(".", "_")
        ns = {"__module__": mod.__name__, "__qualname__": nm}
        seen = set()
        for vname, num in ei.values:
            ns[vname] = num
        E = type(betterproto.Enum)(nm, (betterproto.Enum,), ns)
        setattr(mod, nm, E)
        enum_cls[full] = E
    for i, mi in enumerate(b.user_messages()):
        names[mi.full_name] = f"HM{i}_" + "_".join(mi.path)

    def ann(fi, inner_only=False):
        if fi.wkt == "timestamp":
            t = "datetime"
        elif fi.wkt == "duration":
            t = "timedelta"
        elif (fi.wkt or "").startswith("wrapper:"):
            t = f"Optional[{PY[fi.wkt.split(':')[1]].__name__}]"
        elif fi.kind == "enum":
            t = enum_cls[fi.type_name].__name__ if fi.type_name in enum_cls else "int"
        elif fi.kind == "message":
            t = names[fi.type_name]
        else:
            t = PY[fi.kind].__name__
        return t

    for mi in b.user_messages():
        flds = []
        for fi in mi.fields:
            group = fi.group if fi.label == "oneof" else None
            optional = fi.label == "optional"
            if fi.label == "map":
                f = betterproto.map_field(fi.number, fi.map_key.kind, fi.map_value.kind)
                a = f"Dict[{PY[fi.map_key.kind].__name__}, {ann(fi.map_value)}]"
            else:
                if fi.kind == "message":
                    wraps = fi.wkt.split(":")[1] if (fi.wkt or "").startswith("wrapper:") else None
                    f = betterproto.message_field(fi.number, group=group, wraps=wraps, optional=optional)
                elif fi.kind == "enum":
                    f = betterproto.enum_field(fi.number, group=group, optional=optional)
                else:
                    f = getattr(betterproto, f"{fi.kind}_field")(fi.number, group=group, optional=optional)
                a = ann(fi)
                if fi.label == "repeated":
                    a = f"List[{a}]"
                elif optional and not a.startswith("Optional["):
                    a = f"Optional[{a}]"
            import keyword

            attr = fi.name + "_" if keyword.iskeyword(fi.name) else fi.name  # the name a user would write by hand
            flds.append((attr, a, f))
        cls = dataclasses.make_dataclass(names[mi.full_name], flds, bases=(betterproto.Message,), eq=False, repr=False,
                                         module=mod.__name__)
        setattr(mod, names[mi.full_name], cls)
        b._bp_cls[mi.full_name] = cls
    b._enum_override = enum_cls
    b.handmade_module = mod.__name__
