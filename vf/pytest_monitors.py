"""pytest plugin (W0 workload): runs the repository's own tests with the contract monitors woven, so that
every message those tests serialise / every varint they encode is also an instance for the contracts.
Observation only: the monitors never raise into the tests.  Results go to $VERIF_W0_OUT."""
import json
import os


def pytest_configure(config):
    from vf import monitors

    which = [w for w in os.environ.get("VERIF_W0_CONTRACTS", "bytes,varint,oneof,time").split(",") if w]
    monitors.install(which)


def pytest_sessionfinish(session, exitstatus):
    from vf import monitors

    out = os.environ.get("VERIF_W0_OUT")
    if not out:
        return
    with open(out, "w") as fh:
        json.dump({"evals": dict(monitors.LOG.evals), "violations": monitors.LOG.violations, "woven": monitors.LOG.woven,
                   "not_woven": monitors.LOG.not_woven, "tests_collected": session.testscollected,
                   "tests_failed": session.testsfailed}, fh, default=str)
