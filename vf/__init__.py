"""Runtime-monitoring machinery for python-betterproto (see /verif/DESIGN.md).

Nothing in here imports betterproto at package-import time: the tree under test is
selected by VERIF_REPO (default /repo) and put on sys.path by `vf.env.activate()`.
"""
import os
import sys

VERIF_DIR = os.path.dirname(os.path.dirname(os.path.abspath(__file__)))
DEPS_DIR = os.path.join(VERIF_DIR, ".deps")

# third-party contract libraries live in .deps; appended (not prepended) so that the
# typing_extensions/six copies pip put there never shadow the interpreter's own.
if os.path.isdir(DEPS_DIR) and DEPS_DIR not in sys.path:
    sys.path.append(DEPS_DIR)
