"""G-wire: schema-aware legal re-encodings and faults of a valid serialisation, produced
with the independent spec-level codec."""
from __future__ import annotations

import struct
from typing import Callable, Dict, List, Optional, Tuple

from . import spec
from .build import Build, FieldInfo, MsgInfo
from .spec import Record

LEGAL = ["permute", "pack_toggle", "chunk_split", "pad_value", "pad_packed", "pad_len", "pad_tag", "dup_scalar",
         "dup_oneof", "oneof_alternate", "unknown_interleave"]


def _entry_info(fi: FieldInfo) -> MsgInfo:
    k = FieldInfo(1, "key", "key", fi.map_key.kind, "singular")
    v = fi.map_value
    v = FieldInfo(2, "value", "value", v.kind, "singular", None, v.type_name, v.wkt)
    return MsgInfo(".entry", "", ("Entry",), [k, v], {})


def _sub_info(b: Build, fi: FieldInfo) -> Optional[MsgInfo]:
    if fi.label == "map":
        return _entry_info(fi)
    if fi.kind == "message":
        return b.msgs.get(fi.type_name)
    return None


def _elem_size(kind: str) -> Optional[int]:
    if kind in spec.I32_KINDS:
        return 4
    if kind in spec.I64_KINDS:
        return 8
    return None


def split_packed(kind: str, payload: bytes) -> List[bytes]:
    """element payloads of a packed record"""
    n = _elem_size(kind)
    out = []
    if n:
        if len(payload) % n:
            raise spec.WireError("packed fixed payload not a multiple")
        return [payload[i:i + n] for i in range(0, len(payload), n)]
    pos = 0
    while pos < len(payload):
        _, e = spec.dec_varint(payload, pos)
        out.append(payload[pos:e])
        pos = e
    return out


class WireGen:
    def __init__(self, build: Build, rng):
        self.b = build
        self.rng = rng

    # ------------------------------------------------------------------
    def transform(self, mi: MsgInfo, data: bytes, op: str, depth: int = 0) -> Tuple[bytes, bool]:
        """Apply op somewhere (top level or nested).  Returns (bytes, applied?)."""
        recs = spec.read_records(data)
        fields = {f.number: f for f in mi.fields}
        rng = self.rng
        # maybe descend
        nested = [i for i, r in enumerate(recs) if r.wt == spec.WT_LEN and r.number in fields
                  and _sub_info(self.b, fields[r.number]) is not None
                  and not (fields[r.number].label == "repeated" and fields[r.number].kind != "message")
                  # upb keeps a map entry that contains unknown fields as an unknown field of the parent
                  # (implementation-specific, not in the spec): never put unknown records inside map entries
                  and not (op == "unknown_interleave" and fields[r.number].label == "map")]
        if nested and depth < 4 and rng.random() < 0.4:
            i = rng.choice(nested)
            r = recs[i]
            sub = _sub_info(self.b, fields[r.number])
            new_payload, applied = self.transform(sub, r.value, op, depth + 1)
            if applied:
                raws = [x.raw for x in recs]
                raws[i] = spec.enc_record(r.number, spec.WT_LEN, new_payload)
                return b"".join(raws), True
        fn = getattr(self, "_op_" + op)
        return fn(mi, fields, recs)

    # each op: (mi, fields, recs) -> (bytes, applied)
    def _op_permute(self, mi, fields, recs):
        if len(recs) < 2:
            return b"".join(r.raw for r in recs), False
        raws = [r.raw for r in recs]
        orig = list(raws)
        for _ in range(5):
            self.rng.shuffle(raws)
            if raws != orig:
                break
        return b"".join(raws), raws != orig

    def _op_pack_toggle(self, mi, fields, recs):
        cands = [i for i, r in enumerate(recs) if r.number in fields and fields[r.number].label == "repeated"
                 and fields[r.number].kind in spec.PACKABLE]
        if not cands:
            return b"".join(r.raw for r in recs), False
        i = self.rng.choice(cands)
        r = recs[i]
        fi = fields[r.number]
        raws = [x.raw for x in recs]
        if r.wt == spec.WT_LEN:
            elems = split_packed(fi.kind, r.value)
            wt = spec.wire_type_of(fi.kind)
            raws[i] = b"".join(spec.enc_tag(r.number, wt) + e for e in elems)
        else:
            # pack this single element (a one-element packed chunk)
            payload = r.raw[r.payload_start - r.start:]
            raws[i] = spec.enc_record(r.number, spec.WT_LEN, payload)
        return b"".join(raws), True

    def _op_chunk_split(self, mi, fields, recs):
        cands = [i for i, r in enumerate(recs) if r.number in fields and fields[r.number].label == "repeated"
                 and fields[r.number].kind in spec.PACKABLE and r.wt == spec.WT_LEN]
        cands = [i for i in cands if len(split_packed(fields[recs[i].number].kind, recs[i].value)) >= 2]
        if not cands:
            return b"".join(r.raw for r in recs), False
        i = self.rng.choice(cands)
        r = recs[i]
        fi = fields[r.number]
        elems = split_packed(fi.kind, r.value)
        cut = self.rng.randint(1, len(elems) - 1)
        mode = self.rng.choice(["packed+packed", "unpacked+packed", "packed+unpacked", "packed+empty+packed"])
        wt = spec.wire_type_of(fi.kind)

        def packed(es):
            return spec.enc_record(r.number, spec.WT_LEN, b"".join(es))

        def unpacked(es):
            return b"".join(spec.enc_tag(r.number, wt) + e for e in es)

        a, bb = elems[:cut], elems[cut:]
        if mode == "packed+packed":
            new = packed(a) + packed(bb)
        elif mode == "unpacked+packed":
            new = unpacked(a) + packed(bb)
        elif mode == "packed+unpacked":
            new = packed(a) + unpacked(bb)
        else:
            new = packed(a) + packed([]) + packed(bb)
        raws = [x.raw for x in recs]
        raws[i] = new
        # optionally move the second chunk to the end of the message (non-adjacent chunks)
        return b"".join(raws), True

    def _op_pad_value(self, mi, fields, recs):
        cands = [i for i, r in enumerate(recs) if r.wt == spec.WT_VARINT]
        if not cands:
            return b"".join(r.raw for r in recs), False
        i = self.rng.choice(cands)
        r = recs[i]
        room = 10 - spec.varint_len(r.value)
        if room <= 0:
            return b"".join(x.raw for x in recs), False
        pad = self.rng.randint(1, room)
        raws = [x.raw for x in recs]
        raws[i] = spec.enc_record(r.number, r.wt, r.value, val_pad=pad)
        return b"".join(raws), True

    def _op_pad_packed(self, mi, fields, recs):
        """non-minimal varints for elements INSIDE a packed payload"""
        cands = [i for i, r in enumerate(recs) if r.number in fields and fields[r.number].label == "repeated"
                 and fields[r.number].kind in spec.VARINT_KINDS and r.wt == spec.WT_LEN and len(r.value)]
        if not cands:
            return b"".join(r.raw for r in recs), False
        i = self.rng.choice(cands)
        r = recs[i]
        elems = split_packed(fields[r.number].kind, r.value)
        out = []
        changed = False
        for e in elems:
            v, _ = spec.dec_varint(e, 0)
            room = 10 - len(e)
            if room > 0 and self.rng.random() < 0.6:
                out.append(spec.enc_varint(v, pad=self.rng.randint(1, room)))
                changed = True
            else:
                out.append(e)
        if not changed:
            return b"".join(x.raw for x in recs), False
        raws = [x.raw for x in recs]
        raws[i] = spec.enc_record(r.number, spec.WT_LEN, b"".join(out))
        return b"".join(raws), True

    def _op_pad_len(self, mi, fields, recs):
        cands = [i for i, r in enumerate(recs) if r.wt == spec.WT_LEN]
        if not cands:
            return b"".join(r.raw for r in recs), False
        i = self.rng.choice(cands)
        r = recs[i]
        pad = self.rng.randint(1, 4)
        raws = [x.raw for x in recs]
        raws[i] = spec.enc_record(r.number, r.wt, r.value, len_pad=pad)
        return b"".join(raws), True

    def _op_pad_tag(self, mi, fields, recs):
        if not recs:
            return b"", False
        i = self.rng.randrange(len(recs))
        r = recs[i]
        tl = spec.varint_len((r.number << 3) | r.wt)
        if tl >= 5:
            return b"".join(x.raw for x in recs), False
        pad = self.rng.randint(1, 5 - tl)
        raws = [x.raw for x in recs]
        raws[i] = spec.enc_tag(r.number, r.wt, pad) + r.raw[tl:]
        return b"".join(raws), True

    def _other_payload(self, kind: str, rec: Record) -> bytes:
        """a different legal payload for the same scalar kind (complete record)"""
        rng = self.rng
        wt = spec.wire_type_of(kind)
        if wt == spec.WT_VARINT:
            if kind == "bool":
                v = rng.choice([0, 1])
            elif kind in ("int32", "enum"):
                v = rng.choice([0, 1, 5, -1 & spec.MASK64, 2**31 - 1])
            elif kind == "uint32":
                v = rng.choice([0, 1, 2**32 - 1])
            elif kind == "sint32":
                v = rng.choice([0, 1, 2, 2**32 - 1])
            else:
                v = rng.choice([0, 1, 77, 2**63, 2**64 - 1])
            return spec.enc_record(rec.number, wt, v)
        if wt == spec.WT_I32:
            return spec.enc_record(rec.number, wt, struct.pack("<I", rng.choice([0, 1, 0x3FC00000, 0xFFFFFFFE])))
        if wt == spec.WT_I64:
            return spec.enc_record(rec.number, wt, struct.pack("<Q", rng.choice([0, 1, 0x3FF8000000000000, 2**64 - 2])))
        if kind == "string":
            return spec.enc_record(rec.number, wt, rng.choice([b"", b"other", "é".encode()]))
        return spec.enc_record(rec.number, wt, rng.choice([b"", b"\x00\x01", b"zz"]))

    def _op_dup_scalar(self, mi, fields, recs):
        cands = [i for i, r in enumerate(recs) if r.number in fields
                 and fields[r.number].label in ("singular", "optional", "oneof")
                 and fields[r.number].kind != "message" and r.wt == spec.wire_type_of(fields[r.number].kind)]
        if not cands:
            return b"".join(r.raw for r in recs), False
        i = self.rng.choice(cands)
        r = recs[i]
        fi = fields[r.number]
        extra = self._other_payload(fi.kind, r)
        raws = [x.raw for x in recs]
        pos = self.rng.randint(0, i)  # anywhere before the original: the original stays last
        raws.insert(pos, extra)
        return b"".join(raws), True

    def _op_dup_oneof(self, mi, fields, recs):
        # put a record of ANOTHER member of the same oneof before the selected one
        cands = []
        for i, r in enumerate(recs):
            fi = fields.get(r.number)
            if fi is not None and fi.label == "oneof":
                others = [n for n in mi.oneofs.get(fi.group, []) if n != fi.number]
                if others:
                    cands.append((i, others))
        if not cands:
            return b"".join(r.raw for r in recs), False
        i, others = self.rng.choice(cands)
        o = fields[self.rng.choice(others)]
        if o.kind == "message":
            extra = spec.enc_record(o.number, spec.WT_LEN, b"")
        else:
            fake = Record(o.number, spec.wire_type_of(o.kind), None, b"", 0, 0, 0)
            extra = self._other_payload(o.kind, fake)
        raws = [x.raw for x in recs]
        raws.insert(self.rng.randint(0, i), extra)
        return b"".join(raws), True

    def _op_oneof_alternate(self, mi, fields, recs):
        # several occurrences of members of ONE oneof in alternation before the selected one (X Y X, Y X Y X ...): the last
        # record on the wire wins.  A message-typed member occurs at most once (two occurrences would be merged by the
        # reference, which is outside the property's list).
        cands = []
        for i, r in enumerate(recs):
            fi = fields.get(r.number)
            if fi is not None and fi.label == "oneof" and len(mi.oneofs.get(fi.group, [])) >= 2:
                cands.append(i)
        if not cands:
            return b"".join(r.raw for r in recs), False
        i = self.rng.choice(cands)
        sel = fields[recs[i].number]
        members = [fields[n] for n in mi.oneofs[sel.group]]
        extras, used_msg = [], {sel.number} if sel.kind == "message" else set()
        prev = None
        for _ in range(self.rng.choice([2, 2, 3, 4])):
            pool = [m for m in members if m.number != prev and m.number not in used_msg]
            if not pool:
                break
            # the record right before the selected one is preferably another member, the one before that the selected one
            m = self.rng.choice(pool)
            if m.kind == "message":
                used_msg.add(m.number)
                extras.append(spec.enc_record(m.number, spec.WT_LEN, b""))
            else:
                fake = Record(m.number, spec.wire_type_of(m.kind), None, b"", 0, 0, 0)
                extras.append(self._other_payload(m.kind, fake))
            prev = m.number
        if len(extras) < 2:
            return b"".join(r.raw for r in recs), False
        if sel.kind != "message" and self.rng.random() < 0.6:
            # force the shape  X ... Y ... X(original)
            fake = Record(sel.number, spec.wire_type_of(sel.kind), None, b"", 0, 0, 0)
            extras[0] = self._other_payload(sel.kind, fake)
            others = [m for m in members if m.number != sel.number and m.number not in (used_msg - {sel.number})]
            if others:
                o = self.rng.choice(others)
                extras[1] = (spec.enc_record(o.number, spec.WT_LEN, b"") if o.kind == "message"
                             else self._other_payload(o.kind, Record(o.number, spec.wire_type_of(o.kind), None, b"", 0, 0, 0)))
                extras = extras[:2]
        raws = [x.raw for x in recs]
        positions = sorted(self.rng.randint(0, i) for _ in extras)
        for k, (pos, ex) in enumerate(zip(positions, extras)):
            raws.insert(pos + k, ex)
        return b"".join(raws), True

    def unknown_record(self, known: set) -> bytes:
        rng = self.rng
        for _ in range(100):
            # any number: also the window 19000..19999 that is reserved in SCHEMAS only -- on the wire it is an ordinary
            # unknown number (the reference keeps and re-emits it)
            n = rng.choice([rng.randint(1, 40), rng.randint(41, 3000), rng.randint(3000, 2**29 - 1), 2**29 - 1,
                            rng.choice([18999, 19000, 19500, 19999, 20000])])
            if n not in known:
                break
        wt = rng.choice([0, 1, 2, 5])
        # well-formed but not necessarily minimal: an unknown record must come back byte-for-byte
        tag_pad = rng.choice([0, 0, 0, 1]) if spec.varint_len((n << 3) | wt) < 5 else 0
        if wt == 0:
            v = rng.choice([0, 1, 300, 2**64 - 1, rng.getrandbits(40)])
            pad = rng.choice([0, 0, 1, 3]) if spec.varint_len(v) <= 6 else 0
            return spec.enc_record(n, 0, v, tag_pad=tag_pad, val_pad=pad)
        if wt == 1:
            return spec.enc_record(n, 1, bytes(rng.getrandbits(8) for _ in range(8)), tag_pad=tag_pad)
        if wt == 5:
            return spec.enc_record(n, 5, bytes(rng.getrandbits(8) for _ in range(4)), tag_pad=tag_pad)
        return spec.enc_record(n, 2, bytes(rng.getrandbits(8) for _ in range(rng.choice([0, 1, 3, 20]))),
                               tag_pad=tag_pad, len_pad=rng.choice([0, 0, 0, 1, 2]))

    def _op_unknown_interleave(self, mi, fields, recs):
        raws = [x.raw for x in recs]
        known = set(fields)
        for _ in range(self.rng.randint(1, 3)):
            raws.insert(self.rng.randint(0, len(raws)), self.unknown_record(known))
        if self.rng.random() < 0.35:
            # a record that carries the NUMBER of a known field but a wire type that does not fit its declared type is an
            # unknown field too (the reference keeps it as one): it must not disturb the known fields either
            from .checks.c17 import _fits, _payload_for

            cands = [(f, wt) for f in mi.fields for wt in (0, 1, 2, 5) if f.label != "map" and not _fits(f, wt)]
            if cands:
                f, wt = self.rng.choice(cands)
                raws.insert(self.rng.randint(0, len(raws)), _payload_for(wt, f.number, self.rng))
        return b"".join(raws), True
