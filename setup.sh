#!/bin/sh
# setup_cmd: offline install of the contract libraries beside the repository's interpreter.
set -e
cd "$(dirname "$0")"
if [ ! -d .deps/icontract ]; then
  PIP_NO_INDEX=1 /venv/bin/pip install -q --no-index --find-links /opt/veriftools/wheels --target .deps icontract deal >/dev/null 2>&1 || \
  PIP_NO_INDEX=1 /venv/bin/pip install -q --no-index --find-links /opt/veriftools/wheels --target .deps icontract
fi
PYTHONPATH=.deps /venv/bin/python -c "import icontract; print('icontract', icontract.__version__)"
/venv/bin/python -c "import google.protobuf, grpc_tools, grpclib; print('protobuf', google.protobuf.__version__)"
mkdir -p .work replays evidence
